#!/bin/bash
# Idempotent, offline bootstrap of the overlay venv used by every check.
#   /verif/.venv = /venv's python + a .pth that exposes /venv's site-packages and /repo,
#   plus crosshair-tool / z3-solver / cvc5 from the offline wheelhouse.
set -e
cd "$(dirname "$0")"
V=/verif/.venv
ok() { [ -x $V/bin/python ] && $V/bin/python -c "import crosshair, z3, replicat.repository" >/dev/null 2>&1; }
if ok; then exit 0; fi
mkdir -p /verif/.work
exec 9>/verif/.work/.setup.lock
flock 9
if ok; then exit 0; fi
rm -rf $V
/venv/bin/python -m venv $V
SP=$($V/bin/python -c "import site;print(site.getsitepackages()[0])")
printf "/venv/lib/python3.12/site-packages\n/repo\n" > "$SP/_overlay.pth"
PIP_NO_INDEX=1 $V/bin/pip install -q --no-index --find-links /opt/veriftools/wheels crosshair-tool z3-solver cvc5 >&2
ok
