"""Small Python-AST -> z3 symbolic interpreter (state merging with ite) for the rate limiter in replicat/utils/__init__.py.

Python float is encoded as z3 Real (IEEE rounding is outside the claim). Environment calls are nondeterministic
stubs supplied by the caller (clock, sleep, underlying file). The AST is read from the current /repo source on
every run; an unsupported construct raises Unsupported (-> inconclusive)."""
from __future__ import annotations

import ast
from pathlib import Path
from typing import Callable, Dict

import z3

from .core import REPO


class Unsupported(Exception):
    pass


def load_class_methods(relpath: str, classname: str) -> Dict[str, ast.FunctionDef]:
    src = (REPO / relpath).read_text()
    tree = ast.parse(src)
    for n in ast.walk(tree):
        if isinstance(n, ast.ClassDef) and n.name == classname:
            return {f.name: f for f in n.body if isinstance(f, ast.FunctionDef)}, {
                t.id: ast.literal_eval(s.value) for s in n.body if isinstance(s, ast.Assign) and isinstance(s.value, ast.Constant)
                for t in s.targets if isinstance(t, ast.Name)}
    raise Unsupported(f'class {classname} not found')


def R(x):
    if isinstance(x, (int, float)):
        return z3.RealVal(repr(x) if isinstance(x, float) else x)
    if isinstance(x, str):
        return z3.RealVal(x)
    if z3.is_int(x):
        return z3.ToReal(x)
    return x


class Interp:
    """state: dict name -> z3 expr for attributes ('self._read_sleep_amortised') and locals.
    env: dict dotted-call-name -> callable(interp, args) -> value (may update state['__now'] etc.)."""

    def __init__(self, state, env, consts=None, methods=None):
        self.s = dict(state)
        self.env = env
        self.consts = consts or {}
        self.methods = methods or {}
        self.guard = z3.BoolVal(True)     # condition under which the current statement executes
        self.trace = []

    # ---- expressions
    def name_of(self, node):
        if isinstance(node, ast.Name):
            return node.id
        if isinstance(node, ast.Attribute):
            return self.name_of(node.value) + '.' + node.attr
        raise Unsupported(ast.dump(node))

    def ev(self, node):
        if isinstance(node, ast.Constant):
            if isinstance(node.value, (int, float)) and not isinstance(node.value, bool):
                return R(node.value)
            raise Unsupported(f'constant {node.value!r}')
        if isinstance(node, (ast.Name, ast.Attribute)):
            n = self.name_of(node)
            if n in self.s:
                return self.s[n]
            short = n.split('.')[-1]
            if short in self.consts:
                return R(self.consts[short])
            raise Unsupported(f'unknown name {n}')
        if isinstance(node, ast.BinOp):
            a, b = self.ev(node.left), self.ev(node.right)
            if isinstance(node.op, ast.Add):
                return a + b
            if isinstance(node.op, ast.Sub):
                return a - b
            if isinstance(node.op, ast.Mult):
                return a * b
            if isinstance(node.op, ast.Div):
                return a / b
            raise Unsupported(ast.dump(node.op))
        if isinstance(node, ast.UnaryOp) and isinstance(node.op, ast.USub):
            return -self.ev(node.operand)
        if isinstance(node, ast.Compare) and len(node.ops) == 1:
            a, b = self.ev(node.left), self.ev(node.comparators[0])
            op = node.ops[0]
            return {ast.Gt: lambda: a > b, ast.GtE: lambda: a >= b, ast.Lt: lambda: a < b, ast.LtE: lambda: a <= b,
                    ast.Eq: lambda: a == b, ast.NotEq: lambda: a != b}[type(op)]()
        if isinstance(node, ast.Call):
            fn = self.name_of(node.func)
            args = [self.ev(a) if not isinstance(a, ast.Starred) else None for a in node.args]
            if fn == 'max' and len(args) == 2:
                return z3.If(args[0] >= args[1], args[0], args[1])
            if fn == 'min' and len(args) == 2:
                return z3.If(args[0] <= args[1], args[0], args[1])
            if fn in self.env:
                return self.env[fn](self, args)
            short = fn.split('.')[-1]
            if short in self.methods and fn.startswith('self.'):
                return self.call_method(short, args)
            raise Unsupported(f'call {fn}')
        raise Unsupported(ast.dump(node))

    # ---- statements
    def assign(self, name, value):
        old = self.s.get(name)
        if old is None or z3.is_true(self.guard):
            self.s[name] = value
        else:
            self.s[name] = z3.If(self.guard, value, old)

    def run_block(self, stmts):
        for st in stmts:
            saved = self.guard
            self.guard = z3.simplify(z3.And(saved, self.live()))
            self.stmt(st)
            self.guard = saved

    def stmt(self, st):
        if isinstance(st, ast.Assign) and len(st.targets) == 1:
            self.assign(self.name_of(st.targets[0]), self.ev(st.value))
        elif isinstance(st, ast.AugAssign):
            n = self.name_of(st.target)
            cur = self.ev(st.target)
            v = self.ev(st.value)
            if isinstance(st.op, ast.Add):
                self.assign(n, cur + v)
            elif isinstance(st.op, ast.Sub):
                self.assign(n, cur - v)
            else:
                raise Unsupported(ast.dump(st.op))
        elif isinstance(st, ast.If):
            c = self.ev(st.test)
            saved = self.guard
            self.guard = z3.And(saved, self.live(), c)
            self.run_block(st.body)
            self.guard = z3.And(saved, self.live(), z3.Not(c))
            self.run_block(st.orelse)
            self.guard = saved
        elif isinstance(st, ast.With):
            self.run_block(st.body)          # locks are transparent for a single thread of control
        elif isinstance(st, ast.Return):
            if st.value is not None:
                self.assign('__ret', self.ev(st.value))
            self.assign('__returned', z3.BoolVal(True))
        elif isinstance(st, ast.Expr):
            if isinstance(st.value, ast.Constant):
                return
            self.ev(st.value)
        elif isinstance(st, ast.Pass):
            pass
        else:
            raise Unsupported(ast.dump(st)[:120])

    def live(self):
        r = self.s.get('__returned')
        return z3.BoolVal(True) if r is None else z3.Not(r)

    def exec_stmts(self, stmts):
        self.s.setdefault('__returned', z3.BoolVal(False))
        for st in stmts:
            saved = self.guard
            self.guard = z3.simplify(z3.And(saved, self.live()))
            self.stmt(st)
            self.guard = saved

    def call_method(self, name, args):
        f = self.methods[name]
        params = [a.arg for a in f.args.args][1:]
        sub = Interp(self.s, self.env, self.consts, self.methods)
        sub.guard = self.guard
        sub.s['__returned'] = z3.BoolVal(False)
        sub.s.pop('__ret', None)
        for p, a in zip(params, args):
            sub.s[p] = a
        sub.exec_stmts(f.body)
        ret = sub.s.get('__ret')
        # copy back attribute state and clock (not the callee's locals)
        for k, v in sub.s.items():
            if k.startswith('self.') or k.startswith('__') and k not in ('__returned', '__ret'):
                self.s[k] = v
        return ret
