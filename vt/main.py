"""Entry point: python -m vt.main <property-id> [quick|thorough] | --replay <path>"""
import importlib
import json
import os
import sys

from . import core


def main(argv):
    if not argv:
        print(__doc__)
        return 2
    if argv[0] == '--replay':
        spec = json.loads(open(argv[1]).read())
        if spec.get('module'):
            r = core.replay_call(spec['module'], spec['func'], eval(spec['args']))
        else:
            ob = core.Ob(spec['obligation'], 'S', '', '', engine='python', module=spec['ob_module'], func=spec['ob_func'], env=spec.get('env') or {}, timeout=1800)
            v = core.run_python_ob(ob, [])
            r = {'ok': False if v.status == 'refuted' and (v.extra.get('replay') or {}).get('ok') is False else (True if v.status == 'confirmed' else None),
                 'status': v.status, 'detail': v.detail, 'replay': v.extra.get('replay')}
        print(json.dumps(r, indent=1))
        return 1 if r.get('ok') is False else 0
    prop = argv[0].upper()
    tier = argv[1] if len(argv) > 1 else os.environ.get('VERIF_TIER', 'quick')
    if tier not in ('quick', 'thorough'):
        tier = 'quick'
    mod = importlib.import_module('vt.props.' + prop.lower())
    obs = mod.obligations(tier)
    return core.run_property(prop, tier, obs, mod.EXPLANATION, getattr(mod, 'ASSUMPTIONS', []))


if __name__ == '__main__':
    try:
        rc = main(sys.argv[1:])
    except SystemExit:
        raise
    except BaseException as e:   # a crash of the machinery is never a violation
        import traceback
        traceback.print_exc()
        print(f'INCONCLUSIVE harness error: {e!r}')
        rc = 2
    sys.exit(rc)
