"""C03 - interrupted commands leave a consistent, usable repository.

Crash points and permanent faults are digits of a symbolic vector: the k-th backend mutation of a command (and everything
after it) never happens, or one backend call fails for good, under several completion orders. For the local backend the
crash point lies inside upload()/upload_stream()."""
from __future__ import annotations

import io
import os
import shutil
from pathlib import Path

from crosshair.tracers import NoTracing

from vt import rt, world
from vt.core import digits, shard, tick
from vt.lift import AnchorMissing
from vt.harness import hist
from vt.harness.gc import R, Repository, exceptions, fresh_repo, users

REPLAY = bool(os.environ.get('VT_REPLAY'))


def _say(*a):
    if REPLAY:
        print('DETAIL:', *a)


DELAYS = [[0], [0, 1], [2, 0, 1], [1, 0, 0, 2]]
CMDS = ['snapshot', 'delete', 'clean', 'snapshot_shared', 'delete_old']


def _prepare(d, encrypted):
    """History before the interrupted command: A snapshots set 0 and set 1, B (shared key) snapshots set 2, one orphan chunk."""
    h = hist.History(d, encrypted=encrypted, concurrent=2)
    h.snapshot('A', 0)
    h.snapshot('A', 1)
    h.snapshot('B', 2)
    orphan_loc = h.U.chunk_loc('A', 3)
    h.be.objs[orphan_loc] = h.U.chunk_obj('A', 3)
    return h


def crash_case(cmd, crash_at, fail_call, di, conc, encrypted=True):
    with world.scratch('c03') as d:
        h = _prepare(d, encrypted)
        h.be.delays = DELAYS[di]
        h.concurrent = conc
        h.repos = {u: fresh_repo(h.U, u, h.be, concurrent=conc) for u in 'ABC'}
        base_calls, base_mut = h.be.calls, h.be.mutations
        if crash_at is not None:
            h.be.crash_at = base_mut + crash_at
        if fail_call is not None:
            h.be.fail_call = base_calls + fail_call
        crashed = failed = False
        target = None
        try:
            if cmd == 'snapshot':
                h.snapshot('A', 3)
            elif cmd == 'snapshot_shared':
                h.snapshot('B', 0)
            elif cmd == 'delete':
                target = [s for s in h.snaps if s['owner'] == 'A'][-1]
                h.run(h.repo('A').delete_snapshots([target['name']], confirm=False))
                target['alive'] = False
            elif cmd == 'delete_old':
                target = [s for s in h.snaps if s['owner'] == 'A'][0]
                h.run(h.repo('A').delete_snapshots([target['name']], confirm=False))
                target['alive'] = False
            else:
                h.clean('A')
        except rt.Crash:
            crashed = True
        except (rt.BackendFault, exceptions.ReplicatError, OSError):
            failed = True
        except Exception as e:
            return False, f'{cmd} raised {e!r}'
        if fail_call is not None and not failed and h.be.calls > base_calls + fail_call and not crashed:
            return False, f'{cmd}: backend call #{fail_call} failed for good but the command reported success'
        # ---- the process is gone; look at what is in the backend with fresh clients
        objs = dict(h.be.objs)
        be = rt.MemBackend(objs)
        listed = {k.rpartition('-')[2] for k in objs if k.startswith('snapshots/')}
        known = {s['name']: s for s in h.snaps}
        if cmd.startswith('delete') and target is not None and target['name'] not in listed:
            target['alive'] = False
        for s in h.snaps:
            if s['alive'] and s['name'] not in listed and s is not h.snaps[-1]:
                return False, f'{cmd}: snapshot {s["name"][:8]} of {s["owner"]} disappeared'
        for name in listed:
            if name not in known:
                # snapshot object written by the interrupted snapshot command before it could report: must be complete
                owner = 'B' if cmd == 'snapshot_shared' else 'A'
                known[name] = {'name': name, 'owner': owner, 'files': None, 'alive': True}
            s = known[name]
            out = d / ('out_' + name[:8])
            r = fresh_repo(h.U, s['owner'], be, concurrent=2)
            try:
                rt.MiniLoop().run_until_complete(r.restore(snapshot_regex='^' + name + '$', path=out))
            except Exception as e:
                return False, f'{cmd} interrupted (crash_at={crash_at}, fail={fail_call}): listed snapshot {name[:8]} of {s["owner"]} does not restore: {e!r}'
            got = {'/' + k: v[0] for k, v in world.tree_state(out).items()}
            if s['files'] is not None and got != s['files']:
                return False, f'{cmd}: listed snapshot {name[:8]} restores different content'
            if s['files'] is None:
                fs = hist.FILESETS[3 if cmd == 'snapshot' else 0]
                if sorted(got.values()) != sorted(fs.values()):
                    return False, f'{cmd}: snapshot object visible after the interruption is incomplete'
        # ---- the repository stays usable: new snapshot, then clean leaves exactly the referenced chunks
        h2 = hist.History(d / 'after', encrypted=encrypted) if False else None
        ra = fresh_repo(h.U, 'A', be, concurrent=2)
        src = d / 'again'
        src.mkdir()
        (src / 'n.bin').write_bytes(b'new data after the crash!')
        try:
            loop = rt.MiniLoop()
            res = loop.run_until_complete(ra.snapshot(paths=[src]))
            fresh_a = fresh_repo(h.U, 'A', be, concurrent=2)
            rt.MiniLoop().run_until_complete(fresh_a.clean())
        except Exception as e:
            return False, f'{cmd} interrupted: repository unusable afterwards: {e!r}'
        referenced = set()
        lister = fresh_repo(h.U, 'A', be, concurrent=2)

        async def collect():
            async for _, body in lister._load_snapshots():
                for dg in body['chunks']:
                    referenced.add(lister._chunk_digest_to_location(dg))
        rt.MiniLoop().run_until_complete(collect())
        own = {k for k in be.objs if k.startswith('data/')}
        foreign = {h.U.chunk_loc('C', j) for j in range(4)}
        if (own - foreign) != referenced:
            return False, f'{cmd} interrupted: after clean {len(own - foreign)} chunk objects for {len(referenced)} referenced'
        return True, ''


def e_crash(k: int) -> bool:
    """
    pre: shard(5 * 14 * 4 * 2)[0] <= k < shard(5 * 14 * 4 * 2)[1]
    post: _
    """
    ci, crash_at, di, conci = digits(k, [5, 14, 4, 2])
    with NoTracing():
        ok, msg = crash_case(CMDS[ci], crash_at, None, di, [1, 3][conci])
        tick('e_crash', [CMDS[ci], crash_at, DELAYS[di], [1, 3][conci]])
        if not ok:
            _say(CMDS[ci], crash_at, DELAYS[di], [1, 3][conci], msg)
        return ok


def e_fault(k: int) -> bool:
    """
    pre: shard(5 * 30 * 4 * 2)[0] <= k < shard(5 * 30 * 4 * 2)[1]
    post: _
    """
    ci, fail_call, di, conci = digits(k, [5, 30, 4, 2])
    with NoTracing():
        ok, msg = crash_case(CMDS[ci], None, fail_call, di, [1, 3][conci])
        tick('e_fault', [CMDS[ci], fail_call, DELAYS[di], [1, 3][conci]])
        if not ok:
            _say(CMDS[ci], fail_call, DELAYS[di], [1, 3][conci], msg)
        return ok


def e_crash_unenc(k: int) -> bool:
    """
    pre: shard(5 * 14 * 2)[0] <= k < shard(5 * 14 * 2)[1]
    post: _
    """
    ci, crash_at, di = digits(k, [5, 14, 2])
    with NoTracing():
        ok, msg = crash_case(CMDS[ci], crash_at, None, di, 2, encrypted=False)
        tick('e_crash_unenc', [CMDS[ci], crash_at, DELAYS[di]])
        if not ok:
            _say(CMDS[ci], crash_at, msg)
        return ok


# =========================================================================== local backend: crash inside upload
import replicat.backends.local as LB  # noqa: E402


class _Freeze(Exception):
    pass


def local_crash_case(op, step, pre, size_i):
    """Crash at `step` inside Local.upload / upload_stream; the directory tree at that instant is what survives."""
    import io
    chunk = 16
    size = [0, 1, chunk, 3 * chunk + 1][size_i]
    new = bytes((i * 7 + 3) % 251 for i in range(size)) + b'!'
    old = b'OLD-CONTENT' if pre else None
    name = 'data/ab/cd/ef-0123'
    with world.scratch('c03l') as d:
        root = d / 'repo'
        root.mkdir()
        if old is not None:
            (root / 'data/ab/cd').mkdir(parents=True)
            (root / name).write_bytes(old)
        (root / 'snapshots/zz').mkdir(parents=True)
        (root / 'snapshots/zz/keep-1').write_bytes(b'other object')
        frozen = d / 'frozen'
        state = {'n': 0}

        def point():
            """One potential crash point; the tree is copied (= what a killed process leaves) when the chosen one is hit."""
            if state['n'] == step:
                shutil.copytree(root, frozen)
            state['n'] += 1

        class PPath(type(Path())):
            def write_bytes(self, data):
                point()                                  # before writing into the temp file
                with open(self, 'wb') as f:
                    f.write(data[:len(data) // 2])
                    f.flush()
                    point()                              # half written
                    f.write(data[len(data) // 2:])
                point()                                  # fully written, not yet renamed
                return len(data)

            def replace(self, target):
                r = super().replace(target)
                point()                                  # renamed
                return r

            def mkdir(self, *a, **k):
                r = super().mkdir(*a, **k)
                return r

        class PShutil:
            @staticmethod
            def copyfileobj(src, dst, length=0):
                point()
                first = True
                while True:
                    buf = src.read(length)
                    if not buf:
                        break
                    dst.write(buf)                       # (no flush: shutil.copyfileobj does not flush either)
                    if first:
                        point()                          # after the first stream chunk
                        first = False
                point()

        def PTemp(**kw):
            point()                                      # before the temp file exists
            f = LB_real_ntf(**kw)
            point()                                      # empty temp file exists
            return f
        # (NamedTemporaryFile is hooked only if the module uses it: another way of naming temporaries is not an error)
        has_ntf = hasattr(LB, 'NamedTemporaryFile')
        saved = (LB.Path, LB.shutil, getattr(LB, 'NamedTemporaryFile', None))
        global LB_real_ntf
        LB_real_ntf = saved[2]
        LB.Path, LB.shutil = PPath, PShutil
        if has_ntf:
            LB.NamedTemporaryFile = PTemp
        try:
            be = LB.Local(str(root))
            if op == 'upload':
                be.upload(name, new)
            else:
                be.upload_stream(name, io.BytesIO(new), len(new), chunk)
        finally:
            LB.Path, LB.shutil = saved[:2]
            if has_ntf:
                LB.NamedTemporaryFile = saved[2]
        if not frozen.exists():
            shutil.copytree(root, frozen)                # step beyond the last point: the command completed
        # ---- fresh process on the surviving tree
        be2 = LB.Local(str(frozen))
        listed = sorted(be2.list_files(''))
        for n in listed:
            if n.endswith('.tmp') or '.tmp' in n.rpartition('/')[2]:
                return False, f'temporary file {n} is listed'
        extra = set(listed) - {name, 'snapshots/zz/keep-1'}
        if extra:
            return False, f'objects nobody uploaded are listed (leftover of the interrupted upload): {sorted(extra)}'
        if 'snapshots/zz/keep-1' not in listed or be2.download('snapshots/zz/keep-1') != b'other object':
            return False, 'unrelated object damaged'
        vis = name in listed
        if vis != be2.exists(name):
            return False, 'exists() and list_files() disagree'
        if vis:
            got = be2.download(name)
            if got not in (old, new):
                return False, f'partial object visible: {len(got)} bytes (old {None if old is None else len(old)}, new {len(new)})'
        elif old is not None:
            return False, 'previous object lost although the new one never became visible'
        pref = sorted(be2.list_files('data/'))
        if pref != [n for n in listed if n.startswith('data/')]:
            return False, 'prefix listing differs from full listing'
        return True, ''


def e_local_crash(k: int) -> bool:
    """
    pre: 0 <= k < 2 * 8 * 2 * 4
    post: _
    """
    opi, step, pre, size_i = digits(k, [2, 8, 2, 4])
    with NoTracing():
        ok, msg = local_crash_case(['upload', 'upload_stream'][opi], step, bool(pre), size_i)
        tick('e_local_crash', [opi, step, pre, size_i])
        if not ok:
            _say(['upload', 'upload_stream'][opi], step, pre, size_i, msg)
        return ok


def e_temp_name(k: int) -> bool:
    """Temporary files created by upload(): in the destination's directory, name ends in .tmp and is at most 255 bytes,
    for object names whose last component has any length up to 255 (observed as the source of the publishing rename,
    however the temporary is created).
    pre: 1 <= k <= 255
    post: _
    """
    (n,) = digits(k, [256])
    with NoTracing():
        with world.scratch('c03t') as d:
            made = []

            class RPath(type(Path())):
                def replace(self, target):
                    made.append(Path(str(self)))          # the source of the atomic rename is the temporary file
                    return super().replace(target)
            real = LB.Path
            LB.Path = RPath
            try:
                be = LB.Local(str(d))
                name = 'data/aa/' + 'x' * n
                try:
                    be.upload(name, b'payload')
                except OSError:
                    tick('e_temp_name', [n, 'oserror'])
                    return n > 250          # names close to the file-system limit may be refused, never mangled
            finally:
                LB.Path = real
            if not made:
                raise AnchorMissing('Local.upload no longer publishes through Path.replace: temporary names cannot be observed')
            ok = be.download(name) == b'payload' and list(be.list_files('')) == [name]
            for t in made:
                if t.parent != (d / 'data/aa') or not t.name.endswith('.tmp') or len(t.name.encode()) > 255 or t.exists():
                    ok = False
            tick('e_temp_name', [n, len(made)])
            return ok



# --------------------------------------------------------------------------- two uploaders of one name, killed in between (C03_d)
class _Stepper:
    """Runs fn(stream) in a thread that stops before every read() of its stream until the driver lets it go on."""

    def __init__(self, fn, data):
        import threading
        self.go, self.at_gate, self.done = threading.Event(), threading.Event(), False
        self.error = None
        outer = self

        class S(io.BytesIO):
            def read(self, n=-1):
                outer.at_gate.set()
                outer.go.wait()
                outer.go.clear()
                return super().read(n)

        def run():
            try:
                fn(S(data))
            except BaseException as e:      # noqa
                self.error = e
            finally:
                self.done = True
                self.at_gate.set()
        self.t = threading.Thread(target=run, daemon=True)
        self.t.start()
        self.at_gate.wait(20)

    def step(self, n=1):
        """Let the uploader perform n reads (and everything up to the next one)."""
        for _ in range(n):
            if self.done:
                return
            self.at_gate.clear()
            self.go.set()
            if not self.at_gate.wait(60):
                raise RuntimeError('uploader did not reach its next read within 60 s')

    def finish(self):
        while not self.done:
            self.step()
        self.t.join(5)


def two_uploaders_case(same, size_i, i, j, pre):
    """Two threads of one process (two snapshot workers that both saw exists() == False) stream an object to the same name.
    A performs i reads, B performs j reads, A runs to completion, and the process is killed: the tree at that instant, and
    the tree after B has finished as well, show the object complete (A's or B's payload, or the previous object) or not at all."""
    import io as _io
    import shutil
    chunk = 8192          # >= the buffer of the file object the backend writes through, so every piece reaches the file at once
    size = [1, chunk, 3 * chunk + 1, 5 * chunk][size_i]
    pa = bytes((k * 7 + 3) % 251 for k in range(size))
    pb = [pa, bytes((k * 5 + 1) % 251 for k in range(size + 9)), bytes((k * 5 + 1) % 251 for k in range(max(size - chunk - 3, 1)))][same]
    old = b'OLD-CONTENT' if pre else None
    name = 'data/ab/cd/ef-0123'
    with world.scratch('c03w') as d:
        root = d / 'repo'
        (root / 'data/ab/cd').mkdir(parents=True)
        if old is not None:
            (root / name).write_bytes(old)
        be = LB.Local(str(root))
        A = _Stepper(lambda st: be.upload_stream(name, st, len(pa), chunk), pa)
        A.step(i)
        B = _Stepper(lambda st: be.upload_stream(name, st, len(pb), chunk), pb)
        B.step(j)
        A.finish()
        frozen = d / 'frozen'
        shutil.copytree(root, frozen)
        B.finish()
        allowed = {pa, pb} | ({old} if old is not None else set())

        def examine(tree, label, may_be_absent):
            be2 = LB.Local(str(tree))
            listed = sorted(be2.list_files(''))
            if [n for n in listed if n != name]:
                return f'{label}: unexpected names listed {listed}'
            if name in listed:
                got = be2.download(name)
                if got not in allowed:
                    return f'{label}: object visible with {len(got)} bytes - neither payload ({len(pa)}/{len(pb)} bytes) nor the previous object'
            elif not may_be_absent:
                return f'{label}: object absent'
            return None
        # at the kill instant A has completed: the object must be there, complete
        msg = examine(frozen, f'killed after A finished (A read {i}, B read {j} pieces before)', False)
        if msg is None:
            msg = examine(root, 'after both uploaders finished', False)
        if msg is None and (A.error is not None or B.error is not None):
            msg = f'an uploader failed: A={A.error!r} B={B.error!r}'
        if msg is None:
            left = [p.name for p in (root / 'data/ab/cd').iterdir() if p.name != 'ef-0123']
            if left:
                msg = f'leftovers after both uploads completed: {left}'
        return (msg is None), (msg or '')


def e_two_uploaders(k: int) -> bool:
    """
    pre: shard(3 * 4 * 5 * 6 * 2)[0] <= k < shard(3 * 4 * 5 * 6 * 2)[1]
    post: _
    """
    same, size_i, i, j, pre = digits(k, [3, 4, 5, 6, 2])
    with NoTracing():
        ok, msg = two_uploaders_case(same, size_i, i, j, bool(pre))
        tick('e_two_uploaders', [same, size_i, i, j, pre])
        if not ok:
            _say(msg)
        return ok
