"""C06 - access rights follow key relationships."""
from __future__ import annotations

import contextlib
import io
import os

from crosshair.tracers import NoTracing

from vt import rt, world
from vt.core import digits, shard, tick
from vt.harness import gc, hist
from vt.harness.gc import R, Repository, exceptions, fresh_repo, users
from replicat.exceptions import DecryptionError, ReplicatError

REPLAY = bool(os.environ.get('VT_REPLAY'))


def _say(*a):
    if REPLAY:
        print('DETAIL:', *a)


# ----------------------------------------------------------------------------- S kernels (idealised crypto)
def _repo(props):
    r = Repository.__new__(Repository)
    r.props = props
    return r


def s_private_section(pw: bytes) -> bool:
    """_instantiate_key: the private section decrypts only under the key derived from the right password.
    pre: len(pw) <= 2
    post: _
    raises: DecryptionError
    """
    import replicat.utils.adapters as A
    saved = A._adapters_mapping
    good = b'ok'
    kdf, aead = rt.InjKDF(), rt.IdealAEAD()
    A._adapters_mapping = dict(saved, idealkdf=lambda **k: kdf, idealmac=lambda **k: rt.InjMAC())
    try:
        import inspect
        private = {'mac': {'name': 'idealmac'}, 'shared_kdf': {'name': 'idealkdf'}, 'shared_key': b'ss'}
        r = _repo(rt.ideal_props(False))
        enc = aead.encrypt(r.serialize(private), kdf.derive(good, params=b'salt'))
        key = {'kdf': {'name': 'idealkdf'}, 'kdf_params': b'salt', 'private': enc}
        out = r._instantiate_key(key, password=pw, cipher=aead)
    finally:
        A._adapters_mapping = saved
    with NoTracing():
        tick('s_private', None)
    # reaching this point means decryption succeeded: only allowed with the right password
    return pw == good and out['private'] == private and out['userkey'] == kdf.derive(good, params=b'salt')


def s_snapshot_body(same_user: bool, same_family: bool) -> bool:
    """_decrypt_snapshot_body: data is None iff the user key differs; the chunk table decrypts for every key of the family
    and for no other (DecryptionError).
    pre: same_family or not same_user
    post: _
    raises: DecryptionError
    """
    writer = _repo(rt.ideal_props(True, userkey=b'ua', shared=b's0', mackey=b'0'))
    reader = _repo(rt.ideal_props(True, userkey=b'ua' if same_user else b'ub', shared=b's0' if same_family else b's1', mackey=b'0'))
    body = {'chunks': [b'D1'], 'data': {'utc_timestamp': 'x', 'files': []}}
    out = reader._decrypt_snapshot_body(writer._encrypt_snapshot_body(body))
    with NoTracing():
        tick('s_body', None)
    if not same_family:
        return False        # must have raised
    return out['chunks'] == [b'D1'] and ((out['data'] == body['data']) if same_user else (out['data'] is None))


# ----------------------------------------------------------------------------- E: access matrix
def _capture(fn):
    buf = io.StringIO()
    with contextlib.redirect_stdout(buf):
        try:
            res = fn()
            return ('ok', buf.getvalue(), res)
        except Exception as e:
            return ('raised', type(e).__name__, None)


def access_case(present, viewer, extra_hist):
    """present: 3 bits - whether A, B, C each own a snapshot (of file sets 0,1,2); then an optional extra command."""
    with world.scratch('c06') as d:
        h = hist.History(d, encrypted=True)
        for i, u in enumerate('ABC'):
            if present >> i & 1:
                h.snapshot(u, i)
        if extra_hist:
            op, u, fs = hist.OPS[extra_hist - 1]
            if op == 'snap':
                h.snapshot(u, fs)
            elif op == 'del':
                h.delete_latest(u)
            else:
                h.clean(u)
        v = 'ABC'[viewer]
        fam = h.U.family(v)
        alive = [s for s in h.snaps if s['alive']]
        own = [s for s in alive if s['owner'] == v]
        family = [s for s in alive if h.U.family(s['owner']) == fam]
        r = fresh_repo(h.U, v, h.be)
        st, out, _ = _capture(lambda: rt.MiniLoop().run_until_complete(r.list_snapshots(header=False)))
        if st != 'ok':
            return False, f'list_snapshots by {v} raised {out}'
        rows = [l.split('\t') for l in out.splitlines() if l.strip()]
        names = sorted(x[0].strip() for x in rows)
        if names != sorted(s['name'] for s in family):
            return False, f'{v} lists {len(names)} snapshots, expected the {len(family)} of its key family'
        for x in rows:
            nm = x[0].strip()
            s = next(s for s in family if s['name'] == nm)
            detailed = x[2].strip() != Repository.EMPTY_TABLE_VALUE
            if detailed != (s['owner'] == v):
                return False, f'{v} sees details={detailed} of a snapshot owned by {s["owner"]}'
        r = fresh_repo(h.U, v, h.be)
        st, out, _ = _capture(lambda: rt.MiniLoop().run_until_complete(r.list_files(header=False)))
        if st != 'ok':
            return False, f'list_files by {v} raised {out}'
        listed = sorted(l.split('\t')[1].strip() for l in out.splitlines() if l.strip())
        want = sorted(p for s in own for p in s['files'])
        if listed != want:
            return False, f'{v} lists files {listed}, expected only its own {want}'
        target = d / 'restore'
        r = fresh_repo(h.U, v, h.be)
        st, out, res = _capture(lambda: rt.MiniLoop().run_until_complete(r.restore(path=target)))
        if st != 'ok':
            return False, f'restore by {v} raised {out}'
        got = {'/' + k: b for k, (b, _) in world.tree_state(target).items()}
        newest = {}
        for s in own:
            newest.update(s['files'])
        if got != newest:
            return False, f'restore by {v} wrote {sorted(got)}, expected its own {sorted(newest)}'
        # nobody but the owner may delete a snapshot; independent users do not even see it
        for s in alive:
            if s['owner'] == v:
                continue
            before = dict(h.be.objs)
            r = fresh_repo(h.U, v, h.be)
            st, out, _ = _capture(lambda: rt.MiniLoop().run_until_complete(r.delete_snapshots([s['name']], confirm=False)))
            if st != 'raised' or out != 'ReplicatError':
                return False, f'{v} deleting the snapshot of {s["owner"]}: {st} {out}'
            if h.be.objs != before:
                return False, f'{v} deleting the snapshot of {s["owner"]} was refused but changed the repository'
        return True, ''


def e_access(k: int) -> bool:
    """
    pre: shard(8 * 3 * 16)[0] <= k < shard(8 * 3 * 16)[1]
    post: _
    """
    present, viewer, extra = digits(k, [8, 3, 16])
    with NoTracing():
        ok, msg = access_case(present, viewer, extra)
        tick('e_access', [present, viewer, extra])
        if not ok:
            _say(present, 'ABC'[viewer], extra, msg)
        return ok


def e_unlock(k: int) -> bool:
    """Every (key file, password) pair of the three users: unlock succeeds iff they belong together.
    pre: 0 <= k < 9
    post: _
    """
    ki, pi = digits(k, [3, 3])
    with NoTracing():
        U = users(True)
        r = Repository(rt.MemBackend({'config': U.config}), concurrent=1, cache_directory=None)
        try:
            rt.MiniLoop().run_until_complete(r.unlock(password=U.pw['ABC'[pi]], key=U.keys['ABC'[ki]]))
            ok = ki == pi
        except (DecryptionError, ReplicatError):
            ok = ki != pi
        tick('e_unlock', [ki, pi])
        return ok


def e_unlock_long(k: int) -> bool:
    """Keys whose user KDF is blake2b (the password is the hash key, at most 64 bytes) created with a password of 64, 65 or
    100 bytes: either the command refuses it with the backend untouched, or the password unlocks and every near miss (one
    byte changed, one byte missing, bytes appended, the same first 64 bytes) does not.
    pre: 0 <= k < 2 * 7 * 3
    post: _
    """
    shared, wi, li = digits(k, [2, 7, 3])
    with NoTracing():
        rt.determinism(47)
        be = rt.MemBackend()
        repo = Repository(be, concurrent=1, cache_directory=None)
        P = bytes(33 + i % 90 for i in range([64, 65, 100][li]))
        st = rt.fast_settings(True)
        st['encryption']['kdf'] = {'name': 'blake2b'}
        tick('e_unlock_long', [shared, wi, li])
        try:
            with rt.silence():
                init = rt.MiniLoop().run_until_complete(repo.init(password=P if not shared else b'owner', settings=st if not shared else rt.fast_settings(True)))
                key = init.key
                before = dict(be.objs)
                if shared:
                    key = rt.MiniLoop().run_until_complete(repo.add_key(password=P, shared=True, settings={'encryption': {'kdf': {'name': 'blake2b'}}})).new_key
        except Exception:
            # refused: nothing may have been written by the refused command
            return be.objs == ({} if not shared else before)
        wrong = [P, P[:-1] + b'?', P[:-1], P + b'x', P + b'\x00', P + bytes(40), P[:64]][wi]
        r = Repository(be, concurrent=1, cache_directory=None)
        try:
            rt.MiniLoop().run_until_complete(r.unlock(password=wrong, key=key))
            opened = True
        except Exception:
            opened = False
        return opened == (wrong == P)


# --------------------------------------------------------------------------- the key a command PRINTS (no key_output_path) - C06_e
def _json_objects(text):
    """All top-level JSON objects in a captured stdout (init prints the config and the key)."""
    import json
    dec, out, i = json.JSONDecoder(), [], 0
    while True:
        i = text.find('{', i)
        if i < 0:
            return out
        try:
            obj, end = dec.raw_decode(text, i)
            out.append((obj, text[i:end]))
            i = end
        except ValueError:
            i += 1


def printed_key_case(op, kdf_i, wrong_i):
    """init / add-key (shared, independent) without an output path print the key. The printed key is the key the command
    returned (as later commands read it from a file), its private section is not readable, and it unlocks with its password
    and with no other."""
    import contextlib
    import io
    rt.determinism(59)
    be = rt.MemBackend()
    repo = Repository(be, concurrent=1, cache_directory=None)
    kdf = [dict(rt.FAST_KDF), {'name': 'blake2b'}][kdf_i]
    buf = io.StringIO()
    st = rt.fast_settings(True)
    st['encryption']['kdf'] = kdf
    if op == 0:
        with contextlib.redirect_stdout(buf):
            res = rt.MiniLoop().run_until_complete(repo.init(password=b'right-pw', settings=st))
        key = res.key
    else:
        with contextlib.redirect_stdout(io.StringIO()):
            rt.MiniLoop().run_until_complete(repo.init(password=b'owner', settings=rt.fast_settings(True)))
        issuer = repo if op == 1 else Repository(be, concurrent=1, cache_directory=None)      # (independent keys need no unlocked issuer)
        with contextlib.redirect_stdout(buf):
            res = rt.MiniLoop().run_until_complete(issuer.add_key(password=b'right-pw', shared=(op == 1), settings={'encryption': {'kdf': kdf}}))
        key = res.new_key
    objs = [(o, raw) for o, raw in _json_objects(buf.getvalue()) if isinstance(o, dict) and 'private' in o]
    if len(objs) != 1:
        return False, f'{len(objs)} key objects printed'
    printed_raw = objs[0][1].encode()
    canon = lambda b: repo.serialize(repo.deserialize(b))
    if canon(printed_raw) != canon(repo.serialize(key)):
        return False, 'the printed key is not the key the command returned'
    if isinstance(objs[0][0]['private'], dict) and '!b' not in objs[0][0]['private']:
        return False, 'the printed key shows its private section unencrypted'
    pw = [b'right-pw', b'', b'wrong', b'right-pw ', b'owner'][wrong_i]
    r = Repository(be, concurrent=1, cache_directory=None)
    try:
        rt.MiniLoop().run_until_complete(r.unlock(password=pw, key=printed_raw))
        opened = True
    except Exception:
        opened = False
    if opened != (pw == b'right-pw'):
        return False, f'printed key with password {pw!r}: unlocked={opened}'
    return True, ''


def e_printed_key(k: int) -> bool:
    """
    pre: 0 <= k < 3 * 2 * 5
    post: _
    """
    op, kdf_i, wi = digits(k, [3, 2, 5])
    with NoTracing():
        ok, msg = printed_key_case(op, kdf_i, wi)
        tick('e_printed_key', [op, kdf_i, wi])
        if not ok:
            _say(['init', 'add-key --shared', 'add-key'][op], msg)
        return ok
