"""C13 - every backend behaves as the same simple object store (local backend; S3/B2 against fake services in thorough)."""
from __future__ import annotations

import io
import os
from pathlib import Path

from crosshair.tracers import NoTracing

from vt import world
from vt.core import digits, shard, tick

import replicat.backends.local as LB

REPLAY = bool(os.environ.get('VT_REPLAY'))
CHUNK = 16


def _say(*a):
    if REPLAY:
        print('DETAIL:', *a)


NAMES = ['data/ab/cd', 'data/abc/x', 'data-old/y', 'sp ace/%41#+.bin', 'a', 'data/ab/ce-é', 'files/archive.tmp']
PREFIXES = ['', 'data/', 'data', 'data/ab', 'data/ab/', 'data/ab/c', 'd', 'sp', 'sp ace/%', 'zzz', 'data/abc/x', 'a', 'files/', 'data-']
ACTIONS = ['absent', 'upload', 'stream', 'upload+delete', 'upload+stream-overwrite', 'delete-only', 'stream+upload-empty']
SPELLINGS = ['r', './r', 'r/', 'r//', 'x/../r', 'abs', '.', './', 'abs/']


def _payload(i, big):
    n = (3 * CHUNK + 1) if big else (i + 1)
    return bytes((i * 31 + j * 7) % 251 for j in range(n))


def store_case(spelling, acts, names):
    with world.scratch('c13') as d:
        (d / 'r').mkdir()
        (d / 'x').mkdir()
        cwd = os.getcwd()
        try:
            os.chdir(d)
            sp = SPELLINGS[spelling]
            if sp == 'abs':
                conn = str(d / 'r')
            elif sp == 'abs/':
                conn = str(d / 'r') + '/'
            elif sp in ('.', './'):
                os.chdir(d / 'r')
                conn = sp
            else:
                conn = sp
            be = LB.Local(conn)
            model = {}
            for i, (name, a) in enumerate(zip(names, acts)):
                act = ACTIONS[a]
                if act == 'absent':
                    continue
                if act.startswith('upload'):
                    data = _payload(i, False)
                    be.upload(name, data)
                    model[name] = data
                if act.startswith('stream'):
                    data = _payload(i, True)
                    be.upload_stream(name, io.BytesIO(data), len(data), CHUNK)
                    model[name] = data
                if act == 'upload+delete' or act == 'delete-only':
                    be.delete(name)
                    be.delete(name)          # idempotent
                    model.pop(name, None)
                if act == 'upload+stream-overwrite':
                    data = _payload(i + 3, True)
                    be.upload_stream(name, io.BytesIO(data), len(data), CHUNK)
                    model[name] = data
                if act == 'stream+upload-empty':
                    be.upload(name, b'')
                    model[name] = b''
            # observe everything through a fresh instance as well
            for b in (be, LB.Local(conn)):
                for name in names:
                    ex = b.exists(name)
                    if ex != (name in model):
                        return False, f'exists({name!r}) = {ex}, model says {name in model}'
                    if name in model:
                        if b.download(name) != model[name]:
                            return False, f'download({name!r}) differs from the last upload'
                        out = io.BytesIO()
                        b.download_stream(name, out, CHUNK)
                        if out.getvalue() != model[name]:
                            return False, f'download_stream({name!r}) differs from the last upload'
                for p in PREFIXES:
                    got = list(b.list_files(p))
                    want = sorted(n for n in model if n.startswith(p))
                    if sorted(got) != want:
                        return False, f'list_files({p!r}) with repository {conn!r} = {sorted(got)}, expected {want}'
                    if len(got) != len(set(got)):
                        return False, f'list_files({p!r}) lists a name twice'
            return True, ''
        finally:
            os.chdir(cwd)


def e_store(k: int) -> bool:
    """
    pre: shard(9 * 7 * 7 * 7 * 7)[0] <= k < shard(9 * 7 * 7 * 7 * 7)[1]
    post: _
    """
    sp, a0, a1, a2, a3 = digits(k, [9, 7, 7, 7, 7])
    with NoTracing():
        excl = os.environ.get('VT_EXCLUDE', '').split(',')
        names = [NAMES[0], NAMES[1], NAMES[2], NAMES[3]]
        ok, msg = store_case(sp, [a0, a1, a2, a3], names)
        tick('e_store', [SPELLINGS[sp], a0, a1, a2, a3])
        if not ok:
            _say(SPELLINGS[sp], [ACTIONS[a] for a in (a0, a1, a2, a3)], msg)
        return ok


def e_store2(k: int) -> bool:
    """Second name set (single-segment name, non-ASCII, a name ending in .tmp).
    pre: shard(9 * 7 * 7 * 7)[0] <= k < shard(9 * 7 * 7 * 7)[1]
    post: _
    """
    sp, a0, a1, a2 = digits(k, [9, 7, 7, 7])
    with NoTracing():
        excl = os.environ.get('VT_EXCLUDE', '').split(',')
        names = [NAMES[4], NAMES[5], NAMES[6]]
        acts = [a0, a1, a2]
        if 'F11' in excl:
            acts[2] = 0            # known finding F11 excluded: no object whose name ends in .tmp
        ok, msg = store_case(sp, acts, names)
        tick('e_store2', [SPELLINGS[sp], a0, a1, a2])
        if not ok:
            _say(SPELLINGS[sp], [ACTIONS[a] for a in acts], msg)
        return ok


def known_f11(args):
    """The counterexample involves a live object whose name ends in '.tmp'."""
    k = args['k']
    a2 = (k // (9 * 7 * 7)) % 7
    return ACTIONS[a2] not in ('absent', 'upload+delete', 'delete-only')


# =========================================================================== S3-compatible and B2 adapters against fake services
from vt import fakes, rt  # noqa: E402

RNAMES = ['data/ab/cd', 'data/abc/x', 'data-old/y', 'sp ace/%41#+.bin', 'a', 'data/ab/ce-é', 'b/1', 'b/2', 'b/3']


def remote_store_case(kind, acts, names, page, spelling=0):
    # B2: the repository location names the bucket or gives its id; the application key is unrestricted or restricted to it
    svc = fakes.FakeS3(page=page) if kind == 's3' else fakes.FakeB2(page=page, restricted=spelling >= 2)
    be = fakes.s3_backend(svc) if kind == 's3' else fakes.b2_backend(svc, by_id=spelling % 2 == 1)
    loop = rt.MiniLoop()
    model = {}

    async def collect(agen):
        return [x async for x in agen]

    async def go():
        for i, (name, a) in enumerate(zip(names, acts)):
            act = ACTIONS[a]
            if act == 'absent':
                continue
            if act.startswith('upload'):
                data = _payload(i, False)
                await be.upload(name, data)
                model[name] = data
            if act.startswith('stream'):
                data = _payload(i, True)
                await be.upload_stream(name, io.BytesIO(data), len(data), CHUNK)
                model[name] = data
            if act in ('upload+delete', 'delete-only'):
                await be.delete(name)
                await be.delete(name)
                model.pop(name, None)
            if act == 'upload+stream-overwrite':
                data = _payload(i + 3, True)
                await be.upload_stream(name, io.BytesIO(data), len(data), CHUNK)
                model[name] = data
            if act == 'stream+upload-empty':
                await be.upload(name, b'')
                model[name] = b''
        for name in names:
            ex = await be.exists(name)
            if ex != (name in model):
                return False, f'{kind}: exists({name!r}) = {ex}, model says {name in model}'
            if name in model:
                if await be.download(name) != model[name]:
                    return False, f'{kind}: download({name!r}) differs from the last upload'
                out = io.BytesIO()
                await be.download_stream(name, out, CHUNK)
                if out.getvalue() != model[name]:
                    return False, f'{kind}: download_stream({name!r}) differs from the last upload'
        for p in PREFIXES + ['b/']:
            got = await collect(be.list_files(p))
            want = sorted(n for n in model if n.startswith(p))
            if sorted(got) != want or len(got) != len(set(got)):
                return False, f'{kind}: list_files({p!r}) page size {page} = {got}, expected {want}'
        return True, ''
    try:
        return loop.run_until_complete(go())
    except fakes.RequestStorm:
        return False, f'{kind}: more than {svc.max_requests} requests - an operation retries without bound'
    except RecursionError:
        return False, f'{kind}: unbounded recursion (re-authentication loop)'
    except Exception as e:
        return False, f'{kind}: operation raised {e!r}'


def e_remote(k: int) -> bool:
    """S3-compatible and B2 adapters == dict, listing pages of 1, 2 or 1000 objects.
    pre: shard(2 * 3 * 7 * 7 * 7 * 7)[0] <= k < shard(2 * 3 * 7 * 7 * 7 * 7)[1]
    post: _
    """
    ki, pi, a0, a1, a2, a3 = digits(k, [2, 3, 7, 7, 7, 7])
    with NoTracing():
        names = [RNAMES[0], RNAMES[1], RNAMES[2], RNAMES[3], RNAMES[6], RNAMES[7], RNAMES[8]]
        acts = [a0, a1, a2, a3, 1, 2, 1]
        spelling = (a0 + a1 + a2 + a3 + pi) % 4
        ok, msg = remote_store_case(['s3', 'b2'][ki], acts, names, [1, 2, 1000][pi], spelling)
        tick('e_remote', [['s3', 'b2'][ki], [1, 2, 1000][pi], a0, a1, a2, a3, spelling])
        if not ok:
            _say(msg)
        return ok


# --------------------------------------------------------------------------- atomic replacement seen by a reader in progress (C13_d)
class _HookedFile:
    """A real file as download destination (truncate() extends it, unlike BytesIO); the n-th call made on it lets another
    client complete an upload of the same name first."""

    def __init__(self, path, at, action):
        self.f = open(path, 'w+b')
        self.at, self.action, self.n = at, action, 0

    def _tick(self):
        if self.n == self.at:
            self.action()
        self.n += 1

    def truncate(self, *a):
        self._tick()
        return self.f.truncate(*a)

    def write(self, b):
        self._tick()
        return self.f.write(b)

    def seek(self, *a):
        self._tick()
        return self.f.seek(*a)

    def __getattr__(self, n):
        return getattr(self.f, n)


SIZES_RACE = [0, 1, 5, 3 * CHUNK + 1, 2 * CHUNK]


def download_race_case(old_i, new_i, at, how, dest_kind):
    """Object `n` holds OLD; while a reader is inside download/download_stream another client replaces it with NEW (upload or
    upload_stream, or deletes it). The reader must end up with OLD or NEW in full (or an error for a delete) - an upload
    replaces the object atomically."""
    with world.scratch('c13r') as d:
        be, other = LB.Local(str(d / 'r')), LB.Local(str(d / 'r'))
        old, new = bytes([0x41]) * SIZES_RACE[old_i], bytes([0x42]) * SIZES_RACE[new_i]
        name = 'data/ab/obj'
        be.upload(name, old)
        fired = []

        def action():
            fired.append(1)
            if how == 0:
                other.upload(name, new)
            elif how == 1:
                other.upload_stream(name, io.BytesIO(new), len(new), chunk_size=CHUNK)
            else:
                other.delete(name)
        if dest_kind == 0:
            dest = _HookedFile(d / 'dest.bin', at, action)
        else:
            class _HB(io.BytesIO):
                n = 0

                def _t(self):
                    if self.n == at:
                        action()
                    self.n += 1

                def truncate(self, *a):
                    self._t()
                    return super().truncate(*a)

                def write(self, b):
                    self._t()
                    return super().write(b)
            dest = _HB()
        try:
            be.download_stream(name, dest, chunk_size=CHUNK)
        except OSError as e:
            if how == 2:
                return True, 'error after delete', len(fired)
            return False, f'download_stream raised {e!r} although the object existed throughout', len(fired)
        dest.seek(0, 2)
        end = dest.tell()
        if dest_kind == 0:
            dest.f.flush()
            got = (d / 'dest.bin').read_bytes()
        else:
            got = dest.getvalue()
        ok = got in ((old, new) if how != 2 else (old,))
        if not ok:
            return False, (f'reader got {len(got)} bytes ({got[:8]!r}..., {got.count(0)} NUL) while another client replaced {len(old)} x A by {len(new)} x B '
                           f'at stream call #{at}: neither the old nor the new object'), len(fired)
        return True, 'old' if got == old else 'new', len(fired)


def e_download_race(k: int) -> bool:
    """
    pre: 0 <= k < 5 * 5 * 5 * 3 * 2
    post: _
    """
    oi, ni, at, how, dk = digits(k, [5, 5, 5, 3, 2])
    with NoTracing():
        ok, msg, fired = download_race_case(oi, ni, at, how, dk)
        tick('e_download_race', [oi, ni, at, how, dk, fired, msg[:5]])
        if not ok:
            _say(msg)
        return ok
