"""C01 - backup round trip. S obligations on lifted closures, E obligations on the real stack."""
from __future__ import annotations

import asyncio
import io
import os
from pathlib import Path
from typing import List, Tuple

from crosshair.core import realize
from crosshair.tracers import NoTracing

import replicat.repository as R
from replicat.backends.local import Local

from vt import lift, rt, world
from vt.lift import RealFallback
from vt.core import digits, shard, tick

rt.quiet_repository()
REPLAY = bool(os.environ.get('VT_REPLAY'))


def _say(msg):
    if REPLAY:
        print('DETAIL:', msg)


# =========================================================================== S: A1 attribution (one chunk)
_MK_CHUNK_DONE = lift.lift_closure('replicat.repository', 'snapshot', '_chunk_done',
                                   ['state', 'snapshot_files', 'finished_tracker', 'bytes_tracker'],
                                   overrides={'logger': rt.Nop()})


def _layout(sizes, align=4):
    """State as _stream_files leaves it: files in list order, each start aligned (padding after the previous file)."""
    state = R._SnapshotState()
    pos = 0
    for i, s in enumerate(sizes):
        if i > 0:
            pos += -sizes[i - 1] % align
        f = R._SnapshotFile(path='f%d' % i, stream_start=pos, stream_end=pos + s, digest=b'D%d' % i, metadata={'i': i})
        state.files.append((pos, f))
        pos += s
    return state, pos


def a1_one_chunk(s0: int, s1: int, s2: int, cs: int, ce: int) -> bool:
    """
    pre: 0 <= s0 <= s1 <= s2
    pre: 0 <= cs < ce
    pre: ce <= s0 + (-s0 % 4) + s1 + (-s1 % 4) + s2
    post: _
    """
    sizes = [s0, s1, s2]   # snapshot() sorts files by size, so sizes are non-decreasing along the stream
    state, total = _layout(sizes)
    snapshot_files = {}
    cd = _MK_CHUNK_DONE(state, snapshot_files, rt.Nop(), rt.Nop())
    cd(R._SnapshotChunk(contents=b'', index=7, location='', stream_start=cs, stream_end=ce, counter=3))
    ok = True
    for (_, f) in state.files:
        lo = max(f.stream_start, cs)
        hi = min(f.stream_end, ce)
        fd = snapshot_files.get(f.path)
        refs = fd['chunks'] if fd is not None else []
        if len(refs) > 1:
            ok = False
        if hi > lo:
            if len(refs) != 1 or refs[0]['range'] != [lo - cs, hi - cs] or refs[0]['index'] != 7 or refs[0]['counter'] != 3:
                ok = False
        else:
            for r in refs:
                if r['range'][0] != r['range'][1] or not (0 <= r['range'][0] <= ce - cs):
                    ok = False
        # completion: digest/metadata are recorded iff the chunk reaches the end of the file
        if fd is not None and f.stream_end <= ce and f.stream_end >= cs:
            if fd['digest'] != f.digest or fd['metadata'] != f.metadata:
                ok = False
    with NoTracing():
        tick('a1', None)
    return ok


def a1_empty_file_recorded(z: int, s2: int, ce: int) -> bool:
    """Files are sorted by size, so empty files lead the stream (position 0): the chunk starting at 0 records every one
    of them with a zero-length reference, digest and metadata, whatever follows.
    pre: 0 <= z <= s2 and 1 <= ce <= z + (-z % 4) + s2
    post: _
    """
    state, total = _layout([0, z, s2])
    snapshot_files = {}
    cd = _MK_CHUNK_DONE(state, snapshot_files, rt.Nop(), rt.Nop())
    cd(R._SnapshotChunk(contents=b'', index=1, location='', stream_start=0, stream_end=ce, counter=1))
    ok = True
    for i in ([0, 1] if z == 0 else [0]):
        fd = snapshot_files.get('f%d' % i)
        if fd is None or fd['digest'] != b'D%d' % i or fd['metadata'] != {'i': i} or not fd['chunks'] or \
                not all(r['range'][0] == r['range'][1] for r in fd['chunks']):
            ok = False
    with NoTracing():
        tick('a1e', None)
    return ok


# =========================================================================== S: L1 stream layout
class _FakeFile:
    def __init__(self, size):
        self.left = size

    def read(self, n):
        k = min(n, self.left)
        self.left -= k
        return _Blob(k)

    def fileno(self):
        return 99

    def __enter__(self):
        return self

    def __exit__(self, *a):
        pass


class _Blob:
    """Stands for `k` bytes of file data: only its length matters to the layout."""

    def __init__(self, k):
        self.k = k

    def __len__(self):
        return self.k

    def __bool__(self):
        return True if self.k > 0 else False


class _Pad(_Blob):
    """bytes(n) in the lifted code: n zero bytes of padding (only the length is tracked)."""


class _FakePath:
    def __init__(self, name, size):
        self.name, self.size = name, size

    def __str__(self):
        return self.name

    def open(self, mode):
        return _FakeFile(self.size)


class _LenHasher:
    def __init__(self):
        self.n = 0

    def feed(self, c):
        self.n += len(c)

    def digest(self):
        return ('dg', self.n)


class _L1Self(RealFallback):
    class props:
        class chunker:
            alignment = 4

        @staticmethod
        def incremental_hasher():
            return _LenHasher()

    st_sizes = {}

    @classmethod
    def read_metadata(cls, fd):
        # what fstat reports need not be what was read (procfs, files still growing): the layout must follow the bytes
        return {'fd': fd, 'st_size': cls.st_sizes.get('any', 0)}


_MK_STREAM_FILES = lift.lift_closure('replicat.repository', 'snapshot', '_stream_files',
                                     ['self', 'files', 'state'], overrides={'logger': rt.Nop(), 'bytes': lambda n: _Pad(n)})


def l1_layout(s0: int, s1: int, s2: int, piece: int, reported: int = 0) -> bool:
    """
    pre: 0 <= s0 and 0 <= s1 and 0 <= s2 and piece >= 1
    pre: s0 <= 3 * piece and s1 <= 3 * piece and s2 <= 3 * piece and reported >= 0
    post: _
    """
    sizes = [s0, s1, s2]
    _L1Self.st_sizes['any'] = reported
    files = [_FakePath('f%d' % i, s) for i, s in enumerate(sizes)]
    state = R._SnapshotState()
    gen = _MK_STREAM_FILES(_L1Self, files, state)(piece)
    produced = 0
    ok = True
    for blob in gen:
        if blob.k <= 0:
            ok = False
        if isinstance(blob, _Pad) and blob.k > 3:
            ok = False
        produced += blob.k
        # while a file is being streamed (chunks may already be attributed by the workers) its extent tracks exactly the
        # bytes handed out so far
        cur = state.current_file
        if not isinstance(blob, _Pad) and (cur is None or cur.stream_end != produced or state.bytes_with_padding != produced):
            ok = False
    if produced != state.bytes_with_padding:
        ok = False
    if len(state.files) != 3:
        return False
    prev_end = 0
    for i, (start, f) in enumerate(state.files):
        if start != f.stream_start or f.stream_end - f.stream_start != sizes[i]:
            ok = False
        if f.stream_start % 4 != 0 or f.stream_start < prev_end or f.stream_start - prev_end > 3:
            ok = False
        if f.digest != ('dg', sizes[i]) or f.metadata != {'fd': 99, 'st_size': reported} or f.path != 'f%d' % i:
            ok = False
        prev_end = f.stream_end
    if state.bytes_with_padding != prev_end:
        ok = False
    with NoTracing():
        tick('l1', None)
    return ok


class _GonePath(_FakePath):
    def open(self, mode):
        raise FileNotFoundError(2, 'No such file or directory (removed after it was listed)', self.name)


def l1_vanished(s0: int, s2: int, piece: int) -> bool:
    """The middle one of three listed files has disappeared when it is opened: either the stream ends with that error, or
    whatever is streamed afterwards still starts at an aligned offset with less than 4 bytes of padding and offsets consistent.
    pre: 0 <= s0 and 0 <= s2 and piece >= 1 and s0 <= 3 * piece and s2 <= 3 * piece
    post: _
    """
    _L1Self.st_sizes['any'] = 0
    files = [_FakePath('f0', s0), _GonePath('f1', 5), _FakePath('f2', s2)]
    state = R._SnapshotState()
    gen = _MK_STREAM_FILES(_L1Self, files, state)(piece)
    produced = 0
    ok = True
    try:
        for blob in gen:
            if isinstance(blob, _Pad) and blob.k > 3:
                ok = False
            produced += blob.k
    except FileNotFoundError:
        with NoTracing():
            tick('l1v', None)
        return True
    prev_end = 0
    for start, f in state.files:
        if f.stream_start % 4 != 0 or f.stream_start < prev_end or f.stream_start - prev_end > 3:
            ok = False
        prev_end = f.stream_end
    if produced != state.bytes_with_padding:
        ok = False
    with NoTracing():
        tick('l1v', None)
    return ok


# =========================================================================== S: P1 restore plan
class _PlanSelf(RealFallback):
    """`self` for the lifted planning statements of restore(): real helpers, recording metadata restore."""
    _compile_or_none = R.Repository._compile_or_none

    def __init__(self):
        self.meta_calls = []

    def restore_metadata(self, path, metadata):
        self.meta_calls.append((path, metadata))


# from `file_re = ...` up to (excluding) `bytes_tracker = tqdm(...)`: initialisations + the planning loop
_PLAN_RAW = lift.lift_range('replicat.repository', 'restore', lambda s: lift.assigns(s, 'file_re'),
                            lambda s: lift.assigns(s, 'bytes_tracker'),
                            ['self', 'snapshots', 'file_regex', 'path'],
                            ['chunks_references', 'files_digests', 'files_metadata', 'total_bytes'],
                            overrides={'logger': rt.Nop()})


def _PLAN(snaps, file_regex=None):
    return _PLAN_RAW(_PlanSelf(), snaps, file_regex, Path('/t'))


def p1_plan(a0: int, a1: int, a2: int, l0: int, l1: int, l2: int, c0: int, c1: int, c2: int, i0: int, i1: int, i2: int) -> bool:
    """One file with three references given in arbitrary list order, arbitrary (distinct) counters and arbitrary
    ranges: reference k in counter order is placed at file offset sum of the earlier lengths.
    pre: 0 <= a0 and 0 <= a1 and 0 <= a2 and 0 <= l0 and 0 <= l1 and 0 <= l2
    pre: c0 != c1 and c1 != c2 and c0 != c2
    pre: 0 <= i0 <= 2 and 0 <= i1 <= 2 and 0 <= i2 <= 2
    post: _
    """
    from collections import defaultdict
    digs = [b'd0', b'd1', b'd2']
    refs = [{'range': [a0, a0 + l0], 'index': i0, 'counter': c0},
            {'range': [a1, a1 + l1], 'index': i1, 'counter': c1},
            {'range': [a2, a2 + l2], 'index': i2, 'counter': c2}]
    snaps = [{'chunks': digs, 'data': {'utc_timestamp': '2020', 'files': [{'path': '/s/f', 'chunks': refs, 'metadata': {'m': 1}}]}}]
    cr, fd, fm, total = _PLAN(snaps)
    order = sorted(range(3), key=lambda k: refs[k]['counter'])
    pos = 0
    ok = True
    planned = []
    for dg, lst in cr.items():
        for (fp, size, position, start) in lst:
            planned.append((dg, fp, size, position, start))
    if len(planned) != 3:
        ok = False
    for k in order:
        r = refs[k]
        want = (digs[r['index']], '/s/f', r['range'][1] - r['range'][0], pos, r['range'][0])
        if want not in planned:
            ok = False
        pos += r['range'][1] - r['range'][0]
    if total != pos or fd.get('/s/f') != {digs[i0], digs[i1], digs[i2]}:
        ok = False
    if list(fm) != ['/s/f'] or fm['/s/f'][1] != {'m': 1}:
        ok = False
    with NoTracing():
        tick('p1', None)
    return ok


def p1_select(present: List[bool], newest_first: bool) -> bool:
    """Two snapshots, two paths, presence matrix symbolic: each path is planned exactly once and from the first
    snapshot in the (already sorted) list that contains it.
    pre: len(present) == 4
    post: _
    """
    from collections import defaultdict
    snaps = []
    for s in range(2):
        files = []
        for p in range(2):
            if present[s * 2 + p]:
                files.append({'path': '/s/p%d' % p, 'chunks': [{'range': [0, 1], 'index': 0, 'counter': 1}], 'metadata': {'from': s}})
        snaps.append({'chunks': [b's%d' % s], 'data': {'utc_timestamp': '202%d' % s, 'files': files}})
    cr, fd, fm, total = _PLAN(snaps)
    ok = True
    for p in range(2):
        name = '/s/p%d' % p
        src = 0 if present[p] else (1 if present[2 + p] else None)
        if src is None:
            if name in fm or name in fd:
                ok = False
        else:
            if name not in fm or fm[name][1] != {'from': src} or fd.get(name) != {b's%d' % src}:
                ok = False
            if sum(1 for lst in cr.values() for ref in lst if ref[0] == name) != 1:
                ok = False
    with NoTracing():
        tick('p1s', None)
    return ok


# =========================================================================== S: P2 write of one part
class _MemFile:
    """Minimal r+b file over a (length, writes) model: records truncate/seek/write calls."""

    def __init__(self, store):
        self.s = store
        self.pos = 0

    def seek(self, off, whence=0):
        if whence == io.SEEK_END:
            self.pos = self.s['len'] + off
        else:
            self.pos = off
        return self.pos

    def truncate(self, n):
        self.s['ops'].append(('truncate', n))
        self.s['len'] = n
        return n

    def write(self, data):
        self.s['ops'].append(('write', self.pos, len(data)))
        self.s['len'] = max(self.s['len'], self.pos + len(data))
        self.pos += len(data)
        return len(data)

    def __enter__(self):
        return self

    def __exit__(self, *a):
        pass


class _MemPath:
    def __init__(self, store):
        self.s = store
        self.parent = self

    def mkdir(self, **k):
        pass

    def open(self, mode):
        if mode == 'r+b' and not self.s['exists']:
            raise FileNotFoundError
        if mode == 'wb':
            self.s['len'] = 0
        self.s['exists'] = True
        return _MemFile(self.s)


def p2_write_part(pre_len: int, exists: bool, off: int, n: int) -> bool:
    """_write_file_part on a file of arbitrary previous length: exactly bytes [off, off+n) are written, nothing
    earlier is cut off, and the file is at least off+n long afterwards.
    pre: 0 <= pre_len and 0 <= off and 0 <= n <= 6
    post: _
    """
    store = {'len': pre_len if exists else 0, 'exists': exists, 'ops': []}
    before = store['len']
    R.Repository._write_file_part(None, _MemPath(store), b'x' * n, off)
    writes = [o for o in store['ops'] if o[0] == 'write' and o[2] > 0]
    # the write calls cover [off, off+n) contiguously and in order (one call today; several, or none for an empty part, would do)
    pos = off
    ok = True
    for w in writes:
        if w[1] != pos:
            ok = False
        pos = pos + w[2]
    ok = ok and pos == off + n and (n == 0 or store['len'] >= off + n) and store['len'] >= min(before, off + n)
    for o in store['ops']:
        if o[0] == 'truncate' and o[1] < before and o[1] < off + n:
            ok = False
    with NoTracing():
        tick('p2', None)
    return ok


class _ByteFile:
    """r+b file over a real bytearray: content model for symbolic payloads."""

    def __init__(self, buf):
        self.b, self.pos = buf, 0

    def seek(self, off, whence=0):
        self.pos = len(self.b) + off if whence == io.SEEK_END else off
        return self.pos

    def truncate(self, n):
        if n < len(self.b):
            del self.b[n:]
        else:
            self.b.extend(bytes(n - len(self.b)))
        return n

    def write(self, data):
        end = self.pos + len(data)
        if end > len(self.b):
            self.b.extend(bytes(end - len(self.b)))
        self.b[self.pos:end] = data
        self.pos = end
        return len(data)

    def __enter__(self):
        return self

    def __exit__(self, *a):
        pass


class _BytePath:
    def __init__(self, buf):
        self.buf = buf
        self.parent = self

    def mkdir(self, **k):
        pass

    def open(self, mode):
        if mode == 'wb':
            del self.buf[:]
        return _ByteFile(self.buf)


def p2_content(data: bytes, off: int, pre_len: int) -> bool:
    """Content after _write_file_part over a pre-existing file of 0xff bytes: the part (any bytes, zeros included) is in
    place, everything before it is what was there (old bytes, zero fill in a gap), nothing of the old file survives inside it.
    pre: len(data) <= 3 and 0 <= off <= 4 and 0 <= pre_len <= 6
    post: _
    """
    buf = bytearray(b'\xff' * pre_len)
    R.Repository._write_file_part(None, _BytePath(buf), data, off)
    n = len(data)
    ok = len(buf) >= off + n and bytes(buf[off:off + n]) == data
    for i in range(min(off, len(buf))):
        want = 0xff if i < pre_len else 0
        if buf[i] != want:
            ok = False
    with NoTracing():
        tick('p2c', None)
    return ok


# =========================================================================== S: M1 metadata
def m1_metadata(atime: int, mtime: int, legacy: bool, la: int, lm: int) -> bool:
    """
    pre: True
    post: _
    """
    calls = []

    class _OS:
        @staticmethod
        def utime(path, times=None, ns=None):
            calls.append((path, times, ns))
    saved = R.os
    R.os = _OS
    try:
        md = {'st_atime': la, 'st_mtime': lm}
        if not legacy:
            md.update({'st_atime_ns': atime, 'st_mtime_ns': mtime})
        R.Repository.restore_metadata(None, 'P', md)
    finally:
        R.os = saved
    with NoTracing():
        tick('m1', None)
    if legacy:
        return calls == [('P', (la, lm), None)]
    return calls == [('P', None, (atime, mtime))]


# =========================================================================== E: real stack round trip
POOL = [0, 1, 3, 4, 5, 8, 9, 15, 16, 17, 33]
CONFIGS = [
    dict(encrypted=False),
    dict(encrypted=True),
    dict(encrypted=True, cipher={'name': 'chacha20_poly1305'}, hashing={'name': 'sha2', 'bits': 256}),
    dict(encrypted=True, cipher={'name': 'aes_gcm', 'key_bits': 128}, hashing={'name': 'sha3', 'bits': 512}),
    dict(encrypted=False, hashing={'name': 'blake2b', 'length': 16}),
]
CHUNKING = [(4, 8), (5, 10), (1, 4), (8, 8), (3, 9)]
N_ARGCODES = 10
N_PRECODES = 6


def _expected(args):
    """Paths by which files are reached: top-level arguments resolved, directories walked following symlinks."""
    out = {}
    for a in args:
        rp = Path(a).resolve()
        if rp.is_dir():
            for dp, dn, fn in os.walk(rp, followlinks=True):
                for f in fn:
                    p = Path(dp, f)
                    if p.is_file():
                        out[str(p)] = p
        elif rp.is_file():
            out[str(rp)] = rp
    return out


class _SlowLocal(Local):
    """A store whose uploads take longer than the producer's queue time-out (a network share, a throttled link)."""
    delay = 0.03

    def upload_stream(self, *a, **k):
        import time
        time.sleep(self.delay)
        return super().upload_stream(*a, **k)


def roundtrip_case(sizes, kind, argcode, precode, conc, cfg, chunking, slow=False):
    LocalCls = _SlowLocal if slow else Local
    with world.scratch('c01') as d:
        src = d / 'src'
        (src / 'sub' / 'deep').mkdir(parents=True)
        # third name: non-ASCII and not valid UTF-8 (a raw 0xff byte, as the file system allows)
        names = [src / 'a.bin', src / 'sub' / 'b.bin', src / 'sub' / 'deep' / os.fsdecode(b'c\xc3\xa9\xff.bin')]
        for i, (p, s) in enumerate(zip(names, sizes)):
            p.write_bytes(world.content(kind, i, s))
            os.utime(p, ns=(1_500_000_000_123_456_789 + i, 1_400_000_000_987_654_321 + 1000 * i))
        a, b, c = names
        if argcode == 0:
            args = [src]
        elif argcode == 1:
            args = [a, b, c]
        elif argcode == 2:
            args = [a, a, src / 'sub']
        elif argcode == 3:
            args = [src, src / 'sub']
        elif argcode == 4:
            args = [c, src]
        elif argcode == 5:
            args = [src / 'sub' / '..' / 'a.bin', src / 'sub', src / 'sub' / 'deep' / '..']
        elif argcode == 6:
            lnk = d / 'lnk'
            lnk.symlink_to(a)
            args = [lnk, src / 'sub']
        elif argcode == 7:
            ext = d / 'ext'
            ext.mkdir()
            (ext / 'e.bin').write_bytes(world.content(kind, 5, sizes[0]))
            (src / 'dlink').symlink_to(ext, target_is_directory=True)
            args = [src]
        elif argcode == 8:
            (src / 'sub' / 'flink').symlink_to(a)
            args = [src / 'sub', a]
        else:
            # a directory link that aliases another directory of the same walk (releases/v1 + current -> releases/v1)
            (src / 'alias').symlink_to(src / 'sub' / 'deep', target_is_directory=True)
            args = [src]
        expected = _expected(args)
        exp_state = {}
        for sp, p in expected.items():
            exp_state[sp.lstrip('/')] = (p.read_bytes(), p.stat().st_mtime_ns)
        out = d / 'out'
        pre_state = {}
        if precode:
            first = out / str(a).lstrip('/')
            first.parent.mkdir(parents=True, exist_ok=True)
            n = sizes[0]
            if precode == 1:
                first.write_bytes(b'Z' * max(n - 2, 0))
            elif precode == 2:
                first.write_bytes(b'Z' * (n + 7))
            elif precode == 3:
                first.write_bytes(b'Z' * n)
            elif precode == 4:
                (out / 'other.txt').write_bytes(b'keep me')
                second = out / str(b).lstrip('/')
                second.parent.mkdir(parents=True, exist_ok=True)
                second.write_bytes(b'Q' * (sizes[1] + 1))
                pre_state['other.txt'] = (b'keep me', (out / 'other.txt').stat().st_mtime_ns)
            elif precode == 5:
                third = out / str(c).lstrip('/')
                third.parent.mkdir(parents=True, exist_ok=True)
                third.write_bytes(b'Q' * (sizes[2] * 2 + 3))
        settings = rt.fast_settings(encrypted=cfg.get('encrypted', True), cipher=cfg.get('cipher'),
                                    hashing=cfg.get('hashing'), chunking={'min_length': chunking[0], 'max_length': chunking[1]})

        async def run():
            repo = world.make_repo(LocalCls(str(d / 'repo')), concurrent=conc)
            with rt.silence():
                init = await repo.init(password=b'pw', settings=settings, key_output_path=None)
            snap = await repo.snapshot(paths=list(args))
            # restore from a fresh instance that only has the stored config and the key
            repo2 = world.make_repo(Local(str(d / 'repo')), concurrent=conc)
            await repo2.unlock(password=b'pw', key=init.key)
            res = await repo2.restore(path=out)
            return snap, res

        try:
            snap, res = asyncio.run(run())
        except Exception as e:
            return False, f'command raised {e!r}'
        got = world.tree_state(out)
        want = dict(exp_state)
        want.update(pre_state)
        rec = [f['path'] for f in snap.data['files']]
        if sorted(rec) != sorted(expected):
            return False, f'snapshot records {sorted(rec)} expected {sorted(expected)}'
        if sorted(res.files) != sorted(expected):
            return False, f'restore reports {sorted(res.files)} expected {sorted(expected)}'
        if got != want:
            diff = {k: (got.get(k), want.get(k)) for k in set(got) | set(want) if got.get(k) != want.get(k)}
            return False, f'restored tree differs: {diff}'
        return True, ''


def _e(tag, sizes, kind, argcode, precode, conc, cfgi, chi):
    ok, msg = roundtrip_case(sizes, kind, argcode, precode, conc, CONFIGS[cfgi], CHUNKING[chi])
    tick(tag, [sizes, kind, argcode, precode, conc, cfgi, chi])
    if not ok:
        _say(msg)
    return ok


def _decode(k, radices):
    out = []
    for r in radices:
        out.append(k % r)
        k //= r
    return out


def e_sizes(k: int) -> bool:
    """
    pre: shard(11 * 11 * 2 * 2)[0] <= k < shard(11 * 11 * 2 * 2)[1]
    post: _
    """
    i0, i1, kind, chi = digits(k, [11, 11, 2, 2])
    with NoTracing():
        return _e('e_sizes', [POOL[i0], POOL[i1], 7], kind, 0, 0, 2, 1, chi)


def e_args(k: int) -> bool:
    """
    pre: shard(10 * 3 * 3 * 2)[0] <= k < shard(10 * 3 * 3 * 2)[1]
    post: _
    """
    argcode, i0, i1, i2 = digits(k, [10, 3, 3, 2])
    with NoTracing():
        return _e('e_args', [[0, 5, 10][i0], [0, 4, 17][i1], [0, 9][i2]], 0, argcode, 0, 2, 1, 0)


def e_pre(k: int) -> bool:
    """
    pre: shard(6 * 4 * 3 * 3)[0] <= k < shard(6 * 4 * 3 * 3)[1]
    post: _
    """
    precode, i0, i1, kind = digits(k, [6, 4, 3, 3])
    with NoTracing():
        return _e('e_pre', [[0, 3, 8, 17][i0], [0, 4, 9][i1], 6], [0, 3, 2][kind], 1, precode, 2, 0, 0)      # kind 2: all-zero files


def e_cfg(k: int) -> bool:
    """
    pre: shard(5 * 5 * 3 * 3)[0] <= k < shard(5 * 5 * 3 * 3)[1]
    post: _
    """
    cfgi, chi, conci, i0 = digits(k, [5, 5, 3, 3])
    with NoTracing():
        # the third file is large enough (hundreds of chunks) to fill the producer queue (10 x concurrency) several times
        return _e('e_cfg', [[0, 9, 40][i0], 12, [21, 700, 333][(cfgi + chi) % 3]], 1, 0, 0, [1, 2, 5][conci], cfgi, chi)


ODD_NAMES = [
    'plain.tmp', 'session_k3j9x0aa.tmp', 'data_abcdefgh.tmp', '.hidden', '..double', 'with space', 'new\nline', 'tab\there', '-dash', 'config',
    'snapshots', 'a' * 255, 'caf\u00e9-\u4e2d\u6587', 'x.part', 'y.lock', 'z~', '#hash#', '%41', 'name_1234567_.tmp', 'UPPER.TMP', '{brace}', "quote'\"", 'back\\slash', '*star?',
]


def names_case(group, argmode, conc):
    """Files with unusual but legal names (names that look like temporaries of tools or of the local backend, hidden files,
    control characters, 255-byte names, names of repository areas ...), reached through a directory argument, as explicit file
    arguments, or below a sub-directory: every one is recorded and restored."""
    names = ODD_NAMES[group * 6:(group + 1) * 6]
    with world.scratch('c01n') as d:
        src = d / 'src'
        (src / 'sub').mkdir(parents=True)
        want = {}
        for i, n in enumerate(names):
            for parent in (src, src / 'sub'):
                p = parent / n
                p.write_bytes(b'content of ' + n.encode('utf-8', 'surrogateescape')[:40] + bytes([i]))
                # (the first file of each group carries the epoch itself as access and modification time)
                os.utime(p, ns=(0, 0) if i == 0 else (1_500_000_000_000_000_000, 1_400_000_000_000_000_000 + i))
                want[str(p.resolve()).lstrip('/')] = (p.read_bytes(), p.stat().st_mtime_ns)
        if argmode == 0:
            args = [src]
        elif argmode == 1:
            args = sorted(src.iterdir())               # the files and the sub-directory one by one
        else:
            args = [src / 'sub'] + [src / n for n in names]

        async def run():
            repo = world.make_repo(Local(str(d / 'repo')), concurrent=conc)
            with rt.silence():
                init = await repo.init(password=b'pw', settings=rt.fast_settings(True), key_output_path=None)
            snap = await repo.snapshot(paths=list(args))
            repo2 = world.make_repo(Local(str(d / 'repo')), concurrent=conc)
            await repo2.unlock(password=b'pw', key=init.key)
            await repo2.restore(path=d / 'out')
            return snap
        try:
            snap = asyncio.run(run())
        except Exception as e:
            return False, f'command raised {e!r}'
        got = world.tree_state(d / 'out')
        if got != want:
            missing = sorted(k.rsplit('/', 1)[1] for k in set(want) - set(got))
            return False, f'restored tree differs: missing {missing[:6]}, extra {sorted(set(got) - set(want))[:3]}, changed {[k for k in want if k in got and got[k] != want[k]][:3]}'
        return True, ''


def e_names(k: int) -> bool:
    """
    pre: 0 <= k < 4 * 3 * 2
    post: _
    """
    g, am, ci = digits(k, [4, 3, 2])
    with NoTracing():
        ok, msg = names_case(g, am, [1, 3][ci])
        tick('e_names', [g, am, ci])
        if not ok:
            _say(msg)
        return ok


def e_slow(k: int) -> bool:
    """Uploads slower than the producer's 25 ms queue time-out, more chunks than the queue holds (10 x concurrency).
    pre: 0 <= k < 2 * 2 * 2
    post: _
    """
    ci, cfgi, si = digits(k, [2, 2, 2])
    with NoTracing():
        conc = [1, 2][ci]
        sizes = [0, 9, [170, 260][si] * conc]
        ok, msg = roundtrip_case(sizes, 0, 0, 0, conc, CONFIGS[cfgi], (4, 8), slow=True)
        tick('e_slow', [sizes, conc, cfgi])
        if not ok:
            _say(msg[:600])
        return ok


PIECE = 16_777_216   # the read-piece size of _stream_files at the pinned commit (other piece sizes make these plain large files)
BIG = [PIECE - 1, PIECE, PIECE + 1, PIECE + 4, 2 * PIECE, 2 * PIECE + 5]


def e_piece(k: int) -> bool:
    """File sizes around (multiples of) the read-piece size, followed by further files in the stream: round trip exact.
    pre: shard(6 * 2 * 2 * 2)[0] <= k < shard(6 * 2 * 2 * 2)[1]
    post: _
    """
    bi, kind, cfgi, second = digits(k, [6, 2, 2, 2])
    with NoTracing():
        # with `second`, two files of the same large size follow each other (the second starts at a piece boundary of its own)
        sizes = [5, BIG[bi] if second else 9, BIG[bi]]
        ok, msg = roundtrip_case(sizes, [0, 2][kind], 0, 0, 2, CONFIGS[[0, 1][cfgi]], (65536, 1 << 20))
        tick('e_piece', [sizes, kind, cfgi])
        if not ok:
            _say(msg[:600])
        return ok


FULL_RADICES = [11, 11, 3, 4, 10, 6, 3, 5, 5]
FULL_N = 1
for _r in FULL_RADICES:
    FULL_N *= _r
FULL_STRIDE = 1931  # every 1931st point of the mixed-radix enumeration (prime, coprime to every radix)


def e_full(j: int) -> bool:
    """Thorough tier: a 1/193 lattice of the full cross product of all pools.
    pre: shard(FULL_N // FULL_STRIDE)[0] <= j < shard(FULL_N // FULL_STRIDE)[1]
    post: _
    """
    i0, i1, i2, kind, argcode, precode, conci, cfgi, chi = digits(j * FULL_STRIDE, FULL_RADICES)
    with NoTracing():
        return _e('e_full', [POOL[i0], POOL[i1], [0, 6, 23][i2]], kind, argcode, precode, [1, 2, 5][conci], cfgi, chi)


def a2_two_chunks(s0: int, s1: int, c1: int) -> bool:
    """Two files, the stream cut into two consecutive chunks at an arbitrary point c1: the references recorded for each file,
    taken in counter order, tile the file exactly (contiguous in the file, total length = file size, each inside its chunk).
    This is the two-chunk instance of the interval-partition lemma, machine-checked for unbounded sizes.
    pre: 0 <= s0 <= s1 and 1 <= c1
    pre: c1 < s0 + (-s0 % 4) + s1
    post: _
    """
    state, total = _layout([s0, s1])
    snapshot_files = {}
    cd = _MK_CHUNK_DONE(state, snapshot_files, rt.Nop(), rt.Nop())
    cd(R._SnapshotChunk(contents=b'', index=0, location='', stream_start=0, stream_end=c1, counter=1))
    cd(R._SnapshotChunk(contents=b'', index=1, location='', stream_start=c1, stream_end=total, counter=2))
    starts = {1: 0, 2: c1}
    ends = {1: c1, 2: total}
    ok = True
    for (_, f) in state.files:
        fd = snapshot_files.get(f.path)
        if fd is None:
            ok = False
            continue
        refs = sorted(fd['chunks'], key=lambda r: r['counter'])
        pos = f.stream_start           # position in the stream that the next reference has to continue from
        for r in refs:
            a, b = r['range']
            cs = starts[r['counter']]
            if a > b or a < 0 or cs + b > ends[r['counter']]:
                ok = False
            if b > a:
                if cs + a != pos:
                    ok = False
                pos = cs + b
        if pos != f.stream_end or fd['digest'] != f.digest:
            ok = False
    with NoTracing():
        tick('a2', None)
    return ok
