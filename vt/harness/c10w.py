"""C10/C11/C17 wrapper obligations on the real replicat.utils.adapters.gclmulchunker.__call__.

W.stub: the native cutter is replaced by a stub that returns ANY cut allowed by the contract established on the IR
(N2/N3 resp. progress for merely accepted parameters); which allowed cut is a digit of the symbolic vector.
W.native: the cutter is the library built from the current src/adapters.cpp (so a source edit is analysed even though the
shipped extension cannot be rebuilt)."""
from __future__ import annotations

import os

from crosshair.tracers import NoTracing

import replicat.utils.adapters as A

from vt import ir2smt as I
from vt.core import WORK, digits, shard, tick

REPLAY = bool(os.environ.get('VT_REPLAY'))


def _say(*a):
    if REPLAY:
        print('DETAIL:', *a)


PARAMS = [(1, 1), (1, 3), (1, 4), (2, 5), (4, 8), (5, 10), (3, 9), (8, 8), (6, 7), (2, 2)]   # (6,7),(1,1),(1,3),(2,2): accepted, no aligned length
VALID = {(1, 4), (2, 5), (4, 8), (5, 10), (3, 9), (8, 8)}


def _aligned(x):
    return (x + 3) & -4


class StubCutter:
    """next_cut returns a cut allowed by the IR contract; `choices` selects which one (0 low, 1 middle, 2 high)."""

    def __init__(self, mn, mx, key, choices, log):
        self.mn, self.mx, self.choices, self.log, self.i = mn, mx, choices, log, 0
        self.key = bytes(key)

    def next_cut(self, buffer, final=False):
        size = len(buffer)
        self.log.append((size, bool(final)))
        mn, mx = self.mn, self.mx
        c = self.choices[self.i % len(self.choices)]
        self.i += 1
        if size == 0:
            return 0
        lo = _aligned(mn)
        hi = mx & -4
        if final and size <= 2 * mx:
            return [1, max(size // 2, 1), size + 3][c]      # any progress; a cut beyond the data takes everything
        if lo > mx:                    # accepted parameters without an aligned length: the code returns aligned(min)
            return 0 if (not final and c == 1) else lo
        if not final:
            if size < _aligned(mx):
                return 0
            return [lo, 0, hi][c]
        mid = _aligned((lo + hi) // 2)
        return [lo, min(max(mid, lo), hi), hi][c]


_NEED_WP = None


def _need_wp():
    global _NEED_WP
    if _NEED_WP is None:
        from vt.harness import c10ir
        _NEED_WP = c10ir.need_wp()
    return _NEED_WP


class _Mod:
    def __init__(self, factory):
        self._gclmulchunker = factory


def run_wrapper(mn, mx, pieces, factory, params=b'k' * 16):
    saved = A._replicat_adapters
    A._replicat_adapters = _Mod(factory)
    try:
        ch = A.gclmulchunker(min_length=mn, max_length=mx)
        return list(ch(iter(pieces), params=params))
    finally:
        A._replicat_adapters = saved


def _stream(n, seed=0):
    return bytes((i * 37 + seed * 11 + (i >> 3)) % 251 for i in range(n))


def check_stub_case(mn, mx, lens, choices):
    total = sum(lens)
    data = _stream(total)
    pieces, pos = [], 0
    for l in lens:
        pieces.append(data[pos:pos + l])
        pos += l
    log = []
    out = run_wrapper(mn, mx, pieces, lambda a, b, key: StubCutter(a, b, key, choices, log))
    if b''.join(out) != data:
        return False, f'W1 concatenation differs: {[len(x) for x in out]} for pieces {lens}'
    if any(len(x) == 0 for x in out):
        return False, f'W3 empty chunk: {[len(x) for x in out]}'
    A_ = _aligned(mx)
    for size, fin in log:
        if _need_wp() and not fin and size >= mx and size < A_:
            return False, f'W2 non-final cut requested with {size} bytes buffered (< aligned max {A_})'
    # final flag: true exactly while the last piece of the iterator is being consumed
    if log:
        last_final = [f for _, f in log]
        if any(last_final[i] and not last_final[i + 1] for i in range(len(last_final) - 1)):
            return False, 'W2 final flag dropped after being set'
        if lens and not last_final[-1]:
            return False, 'W2 last call not final'
    if (mn, mx) in VALID:
        pos = 0
        for x in out:
            if pos < total - 2 * mx and not (mn <= len(x) <= mx and len(x) % 4 == 0):
                return False, f'W4 chunk of {len(x)} bytes at {pos} (total {total}) outside [{mn},{mx}] / alignment'
            pos += len(x)
    return True, ''


LENPOOL = lambda mx: [0, 1, mx - 1 if mx > 1 else 2, mx, mx + 1, mx + 3, 2 * mx, 2 * mx + 2, 3 * mx + 1]   # noqa: E731


def w_stub(k: int) -> bool:
    """
    pre: shard(10 * 9 * 9 * 9 * 9)[0] <= k < shard(10 * 9 * 9 * 9 * 9)[1]
    post: _
    """
    pi, a, b, c, ch = digits(k, [10, 9, 9, 9, 9])
    with NoTracing():
        mn, mx = PARAMS[pi]
        pool = LENPOOL(mx)
        lens = [pool[a], pool[b], pool[c]]
        ok, msg = check_stub_case(mn, mx, lens, [ch % 3, ch // 3])
        tick('w_stub', [mn, mx, lens, ch])
        if not ok:
            _say(mn, mx, lens, [ch % 3, ch // 3], msg)
        return ok


def w_stub2(k: int) -> bool:
    """Quick tier: two free piece lengths, the third fixed at max+1.
    pre: shard(10 * 9 * 9 * 9)[0] <= k < shard(10 * 9 * 9 * 9)[1]
    post: _
    """
    pi, a, b, ch = digits(k, [10, 9, 9, 9])
    with NoTracing():
        mn, mx = PARAMS[pi]
        pool = LENPOOL(mx)
        lens = [pool[a], pool[b], mx + 1]
        ok, msg = check_stub_case(mn, mx, lens, [ch % 3, ch // 3])
        tick('w_stub2', [mn, mx, lens, ch])
        if not ok:
            _say(mn, mx, lens, [ch % 3, ch // 3], msg)
        return ok


# --------------------------------------------------------------------------- native (source-built) cutter
_LIB = None


def _lib():
    global _LIB
    if _LIB is None:
        _LIB = I.build_native(WORK / f'irw_{os.getpid()}')
    return _LIB


def native_factory(mn, mx, key):
    return I.NativeChunker(_lib(), mn, mx, key)


def check_native_case(mn, mx, total, cuts, seed, key=b'\x01\x02\x03\x04\x05\x06\x07\x08' * 2):
    data = _stream(total, seed)
    cuts = sorted(min(c, total) for c in cuts)
    bounds = [0] + cuts + [total]
    pieces = [data[bounds[i]:bounds[i + 1]] for i in range(len(bounds) - 1)]
    ref = run_wrapper(mn, mx, [data], native_factory, params=key)
    out = run_wrapper(mn, mx, pieces, native_factory, params=key)
    out2 = run_wrapper(mn, mx, pieces, native_factory, params=key)
    if out != out2:
        return False, 'non-deterministic: two identical calls differ'
    # "never by earlier calls": one adapter instance used with key, another key (and no key), then key again
    saved = A._replicat_adapters
    A._replicat_adapters = _Mod(native_factory)
    try:
        inst = A.gclmulchunker(min_length=mn, max_length=mx)
        key2 = bytes(reversed(key))
        r1 = list(inst(iter(pieces), params=key))
        r2 = list(inst(iter(pieces), params=key2))
        r0 = list(inst(iter(pieces)))
        r3 = list(inst(iter(pieces), params=key))
    finally:
        A._replicat_adapters = saved
    if r1 != out or r3 != out:
        return False, 'result depends on earlier calls of the same adapter instance'
    # ... nor by calls that are still in progress: two generators of one instance advanced alternately (what two snapshots
    # running on one Repository object do from their producer threads) give what each gives alone
    data_b = _stream(total + 5, seed + 17)
    pieces_b = [data_b[i:i + max(mx, 1)] for i in range(0, len(data_b), max(mx, 1))] or [b'']
    A._replicat_adapters = _Mod(native_factory)
    try:
        inst = A.gclmulchunker(min_length=mn, max_length=mx)
        solo_b = list(inst(iter(pieces_b), params=key2))
        ga, gb = inst(iter(pieces), params=key), inst(iter(pieces_b), params=key2)
        ra, rb = [], []
        turn = [(1, 1), (2, 1), (1, 3)][seed % 3]
        live = [[ga, ra, turn[0]], [gb, rb, turn[1]]]
        while live:
            for ent in list(live):
                for _ in range(ent[2]):
                    try:
                        ent[1].append(next(ent[0]))
                    except StopIteration:
                        live.remove(ent)
                        break
    finally:
        A._replicat_adapters = saved
    if ra != out or rb != solo_b:
        return False, 'two chunk generators of one adapter instance advanced alternately differ from the same calls run one after the other'
    # the pieces may be views of ONE reused buffer (the zero-copy idiom `n = f.readinto(scratch); yield memoryview(scratch)[:n]`):
    # each piece is only valid until the producer is advanced again
    def reusing():
        scratch = bytearray(max((len(p) for p in pieces), default=0) or 1)
        for p in pieces:
            scratch[:len(p)] = p
            yield memoryview(scratch)[:len(p)]
            scratch[:len(p)] = b'\xee' * len(p)          # what the next readinto() would do to the old bytes
    rz = [bytes(x) for x in run_wrapper(mn, mx, reusing(), native_factory, params=key)]
    if rz != out:
        return False, 'pieces handed over as views of a reused buffer give different chunks than the same bytes as separate objects (a piece is read after the producer was advanced)'
    if r2 != run_wrapper(mn, mx, pieces, native_factory, params=key2) or r0 != run_wrapper(mn, mx, pieces, native_factory, params=None):
        return False, 'result for another key depends on earlier calls of the same adapter instance'
    for res in (ref, out):
        if b''.join(res) != data:
            return False, 'W1 concatenation differs'
        if any(len(x) == 0 for x in res):
            return False, 'W3 empty chunk'
        pos = 0
        for x in res:
            if pos < total - 2 * mx and (mn, mx) in VALID and not (mn <= len(x) <= mx and len(x) % 4 == 0):
                return False, f'W4 chunk {len(x)} at {pos}/{total}'
            pos += len(x)
    # W5: chunks starting before total - 2*max agree between the two segmentations
    def heads(res):
        pos, h = 0, []
        for x in res:
            if pos < total - 2 * mx:
                h.append((pos, len(x)))
            pos += len(x)
        return h
    if heads(ref) != heads(out):
        return False, f'W5 segmentation {[len(p) for p in pieces]} changes chunks outside the tail zone: {heads(out)} vs {heads(ref)}'
    return True, ''


NPARAMS = [(4, 8), (5, 10), (3, 9), (1, 4), (8, 8), (4, 13)]


def w_native(k: int) -> bool:
    """
    pre: shard(6 * 12 * 12 * 6 * 3)[0] <= k < shard(6 * 12 * 12 * 6 * 3)[1]
    post: _
    """
    pi, c1, c2, ti, seed = digits(k, [6, 12, 12, 6, 3])
    with NoTracing():
        mn, mx = NPARAMS[pi]
        total = [0, 1, mx, 2 * mx + 1, 4 * mx + 3, 6 * mx][ti]
        step = max(total // 11, 1)
        ok, msg = check_native_case(mn, mx, total, [c1 * step, c2 * step + (c2 % 3)], seed)
        tick('w_native', [mn, mx, total, c1, c2, seed])
        if not ok:
            _say(mn, mx, total, c1, c2, seed, msg)
        return ok


def c11_suffix(k: int) -> bool:
    """prefix1+S and prefix2+S (aligned prefix lengths) produce identical chunks from the first common boundary up to the
    tail zone; fed in several segmentations.
    pre: shard(4 * 7 * 7 * 4 * 3)[0] <= k < shard(4 * 7 * 7 * 4 * 3)[1]
    post: _
    """
    pi, p1, p2, seg, seed = digits(k, [4, 7, 7, 4, 3])
    with NoTracing():
        mn, mx = [(4, 16), (5, 10), (8, 8), (4, 13)][pi]
        S = _stream(6 * mx, seed + 3)
        l1, l2 = 4 * p1 * max(mx // 8, 1), 4 * p2 * max(mx // 8, 1)
        d1, d2 = _stream(l1, 50 + seed) + S, _stream(l2, 90 + seed)[::-1] + S
        key = bytes(range(1, 17))

        def chunks(d, seg):
            step = [len(d) + 1, mx, 3 * mx + 1, 7][seg]
            pieces = [d[i:i + step] for i in range(0, len(d), step)] or [b'']
            out = run_wrapper(mn, mx, pieces, native_factory, params=key)
            pos, res = 0, []
            for x in out:
                res.append((pos, len(x)))
                pos += len(x)
            return res
        a, b = chunks(d1, seg), chunks(d2, (seg + 1) % 4)
        # boundaries expressed relative to the start of S
        ea = {p + n - l1 for p, n in a if p + n - l1 >= 0}
        eb = {p + n - l2 for p, n in b if p + n - l2 >= 0}
        common = sorted(ea & eb)
        ok, msg = True, ''
        if common:
            first = common[0]
            ta = sorted(x for x in ea if first <= x < len(S) - 2 * mx)
            tb = sorted(x for x in eb if first <= x < len(S) - 2 * mx)
            if ta != tb:
                ok, msg = False, f'boundaries diverge after the first common boundary {first}: {ta} vs {tb}'
        tick('c11_suffix', [mn, mx, l1, l2, seg, seed, len(common)])
        if not ok:
            _say(mn, mx, l1, l2, seg, seed, msg)
        return ok


def key_prologue(n: int) -> bool:
    """params of length n is repeated/truncated to exactly 16 bytes; empty/None gives 16 x 0xFF.
    pre: 0 <= n <= 40
    post: _
    """
    (n,) = digits(n, [41])
    with NoTracing():
        got = []

        class Rec:
            def __init__(self, a, b, key):
                got.append(bytes(key))

            def next_cut(self, buffer, final=False):
                return len(buffer) if final else 0
        params = bytes(range(1, n + 1)) if n else None
        run_wrapper(4, 8, [b'abc'], Rec, params=params)
        want = b'\xff' * 16 if not n else (params * 16)[:16]
        tick('key_prologue', n)
        return got == [want]


# --------------------------------------------------------------------------- W.big: blocks of many MiB (C11_e)
BIG_PARAMS = [(65536, 1 << 20), (4096, 1 << 16), (1 << 20, 5 << 20)]
BIG_TOTALS = [9 * (1 << 20) + 5, 1 << 23, 17 * (1 << 20) + 123]
BIG_SEGS = [[1 << 20], [4 << 20], [3 * (1 << 20) + 7], [16_777_216]]


def big_case(pi, ti, si, seed):
    """A stream of 8..17 MiB handed over as ONE block and in blocks of 1 MiB / 4 MiB / 3 MiB+7 / 16 MiB (the read piece of
    snapshot): lossless, bounded, and the chunks that start before the tail zone are the same for every blocking."""
    import random
    mn, mx = BIG_PARAMS[pi]
    total = BIG_TOTALS[ti]
    data = random.Random(seed + 1).randbytes(total)
    step = BIG_SEGS[si][0]
    pieces = [data[i:i + step] for i in range(0, total, step)]
    key = bytes(range(3, 19))
    ref = run_wrapper(mn, mx, [data], native_factory, params=key)
    out = run_wrapper(mn, mx, pieces, native_factory, params=key)

    def heads(res):
        pos, h = 0, []
        for x in res:
            if pos < total - 2 * mx:
                h.append((pos, len(x)))
            pos += len(x)
        return h
    for res, label in ((ref, 'one block'), (out, f'blocks of {step}')):
        if b''.join(res) != data:
            return False, f'{label}: concatenation differs'
        for pos, n in heads(res):
            if not (mn <= n <= mx and n % 4 == 0):
                return False, f'{label}: chunk of {n} bytes at {pos} outside the tail zone'
    ha, hb = heads(ref), heads(out)
    if ha != hb:
        d = next((a, b) for a, b in zip(ha + [None], hb + [None]) if a != b)
        return False, f'({mn},{mx}), {total} bytes: chunks outside the tail zone depend on the blocking (one block vs blocks of {step}): first difference {d}'
    return True, ''


def w_big(k: int) -> bool:
    """
    pre: shard(3 * 3 * 4 * 2)[0] <= k < shard(3 * 3 * 4 * 2)[1]
    post: _
    """
    pi, ti, si, seed = digits(k, [3, 3, 4, 2])
    with NoTracing():
        ok, msg = big_case(pi, ti, si, seed)
        tick('w_big', [pi, ti, si, seed])
        if not ok:
            _say(msg)
        return ok
