"""Repository commands over the real S3-compatible and B2 adapters against the fake services (vt/fakes.py): the adapter is
part of the path every property quantifies over when it says "every backend"."""
from __future__ import annotations

import os

import httpx
from crosshair.tracers import NoTracing

from vt import fakes, rt, world
from vt.core import digits, shard, tick
R = rt.patch_repository_for_miniloop()
Repository = R.Repository

REPLAY = bool(os.environ.get('VT_REPLAY'))


def _say(*a):
    if REPLAY:
        print('DETAIL:', *a)


FSETS = [
    {'a.bin': bytes(range(40)), 'b.bin': bytes(range(20, 40))},
    {'a.bin': bytes(range(40)) + b'tail-of-v2', 'c.bin': b''},
    {'d.bin': b'Z' * 21},
]


def _service(kind, spelling, page=3):
    if kind == 's3':
        svc = fakes.FakeS3(page=page)
        return svc, (lambda: fakes.s3_backend(svc))
    svc = fakes.FakeB2(page=page, restricted=spelling >= 2)
    return svc, (lambda: fakes.b2_backend(svc, by_id=spelling % 2 == 1))


def _is_upload(req):
    return req.method == 'PUT' or str(req.url).startswith(fakes.FakeB2.UP)


def remote_history_case(kind, spelling, lost_at, conc, enc):
    """init, snapshot F0, snapshot F1, snapshot F0 again, delete the first, clean - on the real adapter; the response to
    the `lost_at`-th upload request is lost after the service stored the object (the adapter retries it)."""
    rt.determinism(53)
    svc, mk = _service(kind, spelling)
    svc.max_requests = 4000
    loop = rt.MiniLoop(budget=3_000_000)
    with world.scratch('rem') as d:
        srcs = []
        for i, fs in enumerate(FSETS):
            s = d / f'src{i}'
            s.mkdir()
            for n, data in fs.items():
                (s / n).write_bytes(data)
            srcs.append(s)
        A = Repository(mk(), concurrent=conc, cache_directory=None)
        with rt.silence():
            init = loop.run_until_complete(A.init(password=b'pw', settings=rt.fast_settings(encrypted=bool(enc))))
        if lost_at is not None:
            svc.plan = fakes.FaultPlan('lost', match=_is_upload, skip=lost_at, count=1)
        try:
            s1 = loop.run_until_complete(A.snapshot(paths=[srcs[0]]))
            s2 = loop.run_until_complete(A.snapshot(paths=[srcs[1]]))
            n_before = len([n for n in svc.uploaded if n.startswith('data/')])
            s3 = loop.run_until_complete(A.snapshot(paths=[srcs[0]]))
            re_up = len([n for n in svc.uploaded if n.startswith('data/')]) - n_before
            lost_hit = svc.plan.hits
            svc.plan = fakes.FaultPlan()
            if re_up and not lost_hit:
                return False, f'{kind}: snapshot of unchanged data uploaded {re_up} chunk(s) again (existence check on this backend fails for stored chunks?)'
            B = Repository(mk(), concurrent=conc, cache_directory=None)
            loop.run_until_complete(B.unlock(password=b'pw', key=init.key))
            loop.run_until_complete(B.delete_snapshots([s1.name], confirm=False))
        except fakes.RequestStorm:
            return False, f'{kind}: request storm'
        except Exception as e:
            return False, f'{kind}: command raised {e!r}'
        live = svc.objs if kind == 's3' else svc.live()
        listed = sorted(k.rpartition('-')[2] for k in live if k.startswith('snapshots/'))
        if listed != sorted([s2.name, s3.name]):
            return False, f'{kind}: after deleting the first snapshot the store lists {len(listed)} snapshot(s) ({"the deleted one among them" if s1.name in listed else "?"})'
        want = {}
        for snap, src, fs in ((s2, srcs[1], FSETS[1]), (s3, srcs[0], FSETS[0])):
            C = Repository(mk(), concurrent=conc, cache_directory=None)
            out = d / ('out' + snap.name[:6])
            try:
                loop.run_until_complete(C.unlock(password=b'pw', key=init.key))
                loop.run_until_complete(C.restore(snapshot_regex='^' + snap.name + '$', path=out))
            except Exception as e:
                return False, f'{kind}: a listed snapshot cannot be restored: {e!r}'
            got = {k.rsplit('/', 1)[1]: v[0] for k, v in world.tree_state(out).items()}
            if got != fs:
                return False, f'{kind}: restore differs from the captured files'
        try:
            loop.run_until_complete(B.clean())
        except Exception as e:
            return False, f'{kind}: clean raised {e!r}'
        live = svc.objs if kind == 's3' else svc.live()
        have = {k for k in live if k.startswith('data/')}
        ref = {B._chunk_digest_to_location(dg) for snap in (s2, s3) for dg in snap.chunks}
        if have != ref:
            return False, f'{kind}: after clean {len(have - ref)} unreferenced and {len(ref - have)} missing chunk objects'
        return True, ''


def e_remote_history(k: int) -> bool:
    """
    pre: shard(2 * 4 * 9 * 2 * 2)[0] <= k < shard(2 * 4 * 9 * 2 * 2)[1]
    post: _
    """
    ki, sp, li, ci, enc = digits(k, [2, 4, 9, 2, 2])
    with NoTracing():
        ok, msg = remote_history_case(['s3', 'b2'][ki], sp, [None, 0, 1, 2, 3, 5, 8, 11, 14][li], [1, 3][ci], enc)
        tick('e_remote_history', [ki, sp, li, ci, enc])
        if not ok:
            _say(msg)
        return ok
