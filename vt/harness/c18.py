"""C18 - the snapshot cache never changes what a command does."""
from __future__ import annotations

import contextlib
import io
import os
from pathlib import Path

from crosshair.tracers import NoTracing

from vt import rt, world
from vt.lift import RealFallback
from vt.core import digits, shard, tick
from vt.harness import hist
from vt.harness.gc import R, Repository, exceptions, fresh_repo, users
from replicat.exceptions import ReplicatError

REPLAY = bool(os.environ.get('VT_REPLAY'))


def _say(*a):
    if REPLAY:
        print('DETAIL:', *a)


class _B:
    pass


class CRepo(Repository):
    """Real _download_snapshot_threadsafe/_decrypt_snapshot_body with the three I/O primitives overridden."""

    def __init__(self, cached, stored, use_cache=True):
        super().__init__(_B(), concurrent=1, cache_directory='/nonexistent' if use_cache else None)
        self._cached, self._stored = cached, stored
        self.downloads = 0

    def _get_cached(self, path):
        if self._cached is None:
            raise FileNotFoundError
        return self._cached

    def _store_cached(self, path, data):
        self._cached = data

    def _download_threadsafe(self, path, *, loop):
        self.downloads += 1
        return self._stored


ORIG = b'{"chunks":[],"data":{"utc_timestamp":"2020-01-01 00:00:00","files":[]}}'
BODY = {'chunks': [], 'data': {'utc_timestamp': '2020-01-01 00:00:00', 'files': []}}
EXPECTED = b'H' + ORIG
OTHER = b'{"chunks":[],"data":{"utc_timestamp":"2021-02-02 00:00:00","files":[]}}'      # another valid snapshot body
PATH = 'snapshots/ab/cd-ef'


def _mk(cached, stored, use_cache=True):
    repo = CRepo(cached, stored, use_cache)
    repo.props = rt.ideal_props(False)
    return repo


def k1_cache_entry(has_cache: bool, cached: bytes) -> bool:
    """Any cache entry (absent, arbitrary short bytes, the true content): same result as without a cache.
    pre: len(cached) <= 3 or cached == ORIG
    post: _
    """
    repo = _mk(cached if has_cache else None, ORIG)
    body = repo._download_snapshot_threadsafe(PATH, EXPECTED, loop=None)
    with NoTracing():
        tick('k1', None)
    return body == BODY


def k5_invalid_cache_wrong_remote(cached: bytes, stored: bytes) -> bool:
    """An invalid cache entry AND a stored object that is not the snapshot (arbitrary bytes, or another valid snapshot body):
    the function raises - it never returns content that was not verified against the name.
    pre: len(cached) <= 2 and (len(stored) <= 2 or stored == OTHER)
    post: _
    """
    repo = _mk(cached, stored)
    try:
        body = repo._download_snapshot_threadsafe(PATH, EXPECTED, loop=None)
    except Exception:
        with NoTracing():
            tick('k5', None)
        return True
    with NoTracing():
        tick('k5', None)
    return False


def k3_prefix(p: int) -> bool:
    """An interrupted cache write leaves a proper prefix of the content: same result as without a cache.
    pre: 0 <= p < len(ORIG)
    post: _
    """
    repo = _mk(ORIG[:p], ORIG)
    body = repo._download_snapshot_threadsafe(PATH, EXPECTED, loop=None)
    with NoTracing():
        tick('k3', None)
    return body == BODY


def k2_bad_download(stored: bytes, second_cached_client: bool) -> bool:
    """The backend returns arbitrary wrong bytes once (a reader racing an upload, a damaged object): the command
    fails exactly like a cache-less client, and once the object is intact again the cached client gets the right
    result - nothing unverified may have entered the cache.
    pre: len(stored) <= 3
    post: _
    """
    repo = _mk(None, stored)
    failed = False
    try:
        repo._download_snapshot_threadsafe(PATH, EXPECTED, loop=None)
    except ReplicatError:
        failed = True
    if not failed:
        return False
    repo._stored = ORIG
    body = repo._download_snapshot_threadsafe(PATH, EXPECTED, loop=None)
    with NoTracing():
        tick('k2', None)
    return body == BODY


# --------------------------------------------------------------------------- E: histories with real cache directories
def _capture(loop_run, coro_fn):
    buf = io.StringIO()
    with contextlib.redirect_stdout(buf):
        try:
            res = loop_run(coro_fn())
            out = ('ok', buf.getvalue(), sorted(getattr(res, 'files', None) or []) if res is not None else None)
        except Exception as e:
            out = ('raised', type(e).__name__, str(e)[:80])
    return out


def _observe(h, user, cache_dir, tag, d):
    """Outputs of the read-only commands as seen by `user` with the given cache directory (None = disabled)."""
    outs = []
    for cmd in ('list_snapshots', 'list_files', 'restore'):
        r = fresh_repo(h.U, user, h.be, concurrent=2, cache_directory=cache_dir)
        loop = rt.MiniLoop()
        if cmd == 'restore':
            target = d / f'obs_{tag}_{user}'
            o = _capture(loop.run_until_complete, lambda: r.restore(path=target))
            o = o + (sorted((k, v[0]) for k, v in world.tree_state(target).items()),)
        else:
            o = _capture(loop.run_until_complete, lambda: getattr(r, cmd)())
        outs.append(o)
    return outs


def _observe_mutating(h, user, cache_dir, tag, d):
    """Results of the state-changing commands as run by `user` with the given cache directory (None = disabled), each on a
    copy of the store and of the cache: what the command reports and the objects in the store afterwards. Includes the
    object-level commands, and a mirror upload into ANOTHER (empty) repository with the same cache directory."""
    import shutil
    outs = []
    n = [0]

    def cache_copy():
        if cache_dir is None:
            return None
        n[0] += 1
        cc = d / f'cc_{tag}_{user}_{n[0]}'
        if Path(cache_dir).exists():
            shutil.copytree(cache_dir, cc)
        return str(cc)

    def on_copy(fn, be2=None, unlocked=True):
        be2 = rt.MemBackend(dict(h.be.objs)) if be2 is None else be2
        rt.determinism(77)
        if unlocked:
            r = fresh_repo(h.U, user, be2, concurrent=2, cache_directory=cache_copy())
        else:
            r = Repository(be2, concurrent=2, cache_directory=cache_copy())
        o = _capture(rt.MiniLoop().run_until_complete, lambda: fn(r))
        return o + (sorted(be2.objs.items()),)
    src = d / f'msrc_{tag}_{user}'
    src.mkdir()
    (src / 'n.bin').write_bytes(b'new data for ' + user.encode() + bytes(range(30)))
    (src / 'a.bin').write_bytes(hist.FILESETS[0]['a.bin'])
    # (same path for the cached and the cache-less run: the snapshot records absolute paths)
    stable = d / f'msrc_{user}'
    if not stable.exists():
        src.rename(stable)
    outs.append(on_copy(lambda r: r.snapshot(paths=[stable])))
    mine = [s for s in h.snaps if s['alive'] and s['owner'] == user]
    if mine:
        outs.append(on_copy(lambda r: r.delete_snapshots([mine[-1]['name']], confirm=False)))
    outs.append(on_copy(lambda r: r.clean()))
    outs.append(on_copy(lambda r: r.list_objects(object_prefix='snapshots/')))
    names = sorted(h.be.objs)
    outs.append(on_copy(lambda r: r.delete_objects([x for x in names if x.startswith('snapshots/')][:1] + ['data/zz/none'], confirm=False)))
    dl = d / f'dl_{tag}_{user}'
    o = on_copy(lambda r: r.download_objects(path=dl, object_prefix='snapshots/'))
    outs.append(o + (sorted((k, v[0]) for k, v in world.tree_state(dl).items()),))
    # mirror: every object of this repository as a file; uploaded with --skip-existing into an EMPTY other repository
    mirror = d / f'mirror_{user}'          # (one directory for the cached and the cache-less run)
    if not mirror.exists():
        for name, data in h.be.objs.items():
            (mirror / name).parent.mkdir(parents=True, exist_ok=True)
            (mirror / name).write_bytes(data)
    cwd = os.getcwd()
    os.chdir(mirror)
    try:
        outs.append(on_copy(lambda r: r.upload_objects([mirror], skip_existing=True), be2=rt.MemBackend({}), unlocked=False))
    finally:
        os.chdir(cwd)
    return outs


PREFIX = ['intact', 'empty', 'one', 'half', 'allbutone', 'garbage', 'other']


def cache_history(c0, c1, c2, shared_cache, corrupt, which):
    with world.scratch('c18') as d:
        h = hist.History(d, encrypted=True)
        caches = {u: str(d / ('cache_shared' if shared_cache else f'cache_{u}')) for u in 'ABC'}
        # every client uses its cache for all commands of the history
        h.repos = {u: fresh_repo(h.U, u, h.be, concurrent=2, cache_directory=caches[u]) for u in 'ABC'}
        h.fresh = False
        codes = [0, c0, c1, c2]
        for i, c in enumerate(codes):
            op, u, fs = hist.OPS[c]
            try:
                if op == 'snap':
                    h.snapshot(u, fs)
                elif op == 'del':
                    h.delete_latest(u)
                else:
                    h.clean(u)
            except Exception as e:
                return False, f'{op} by {u} raised {e!r}'
            if i == 1:
                # every client looks at the repository once in the middle: warms the caches
                for u2 in 'ABC':
                    _observe(h, u2, caches[u2], f'warm{u2}', d)
        # state of cache entries that an interrupted write can leave
        files = sorted(p for p in Path(d).glob('cache_*/**/*') if p.is_file())
        if corrupt and files:
            f = files[which % len(files)]
            data = f.read_bytes()
            kind = PREFIX[corrupt]
            if kind == 'empty':
                f.write_bytes(b'')
            elif kind == 'one':
                f.write_bytes(data[:1])
            elif kind == 'half':
                f.write_bytes(data[:len(data) // 2])
            elif kind == 'allbutone':
                f.write_bytes(data[:-1])
            elif kind == 'garbage':
                f.write_bytes(b'""')
            elif kind == 'other' and len(files) > 1:
                f.write_bytes(files[(which + 1) % len(files)].read_bytes())
        for u in 'ABC':
            with_cache = _observe(h, u, caches[u], 'c', d)
            without = _observe(h, u, None, 'n', d)
            if with_cache != without:
                diffs = [(a, b) for a, b in zip(with_cache, without) if a != b]
                return False, f'user {u}: cached client differs from cache-less client: {str(diffs)[:600]}'
        for u in 'ABC':
            with_cache = _observe_mutating(h, u, caches[u], 'c', d)
            without = _observe_mutating(h, u, None, 'n', d)
            if with_cache != without:
                cmds = ['snapshot'] + (['delete'] if len(with_cache) == 7 else []) + ['clean', 'list_objects', 'delete_objects', 'download_objects', 'upload_objects --skip-existing into another repository']
                bad = [c for c, a, b in zip(cmds, with_cache, without) if a != b]
                return False, f'user {u}: {bad} with the cache differ(s) from the cache-less run (report or objects in the store afterwards)'
        return True, ''


def e_cache(k: int) -> bool:
    """
    pre: shard(15 * 15 * 2 * 7 * 3)[0] <= k < shard(15 * 15 * 2 * 7 * 3)[1]
    post: _
    """
    c0, c1, sh, corrupt, which = digits(k, [15, 15, 2, 7, 3])
    with NoTracing():
        ok, msg = cache_history(c0, c1, 9, bool(sh), corrupt, which)
        tick('e_cache', [hist.OPS[c0], hist.OPS[c1], sh, PREFIX[corrupt], which])
        if not ok:
            _say(hist.OPS[c0], hist.OPS[c1], sh, PREFIX[corrupt], which, msg)
        return ok


# --------------------------------------------------------------------------- K4: two clients storing the same entry into a shared cache
def _coop_store():
    """Repository._store_cached from the current source as a cooperative generator (pre-emption before every statement)."""
    import ast
    from vt import lift
    mod, tree = lift._module_tree('replicat.repository')
    cls = [n for n in tree.body if isinstance(n, ast.ClassDef) and n.name == 'Repository'][0]
    fn = [n for n in cls.body if isinstance(n, ast.FunctionDef) and n.name == '_store_cached'][0]
    fn = lift.Yielder(set()).instrument(fn)
    m = ast.Module(body=[fn], type_ignores=[])
    ast.fix_missing_locations(m)
    ns = dict(mod.__dict__)
    exec(compile(m, '<coop Repository._store_cached>', 'exec'), ns)
    return ns['_store_cached']


_STORE = None


class _CacheSelf(RealFallback):
    def __init__(self, d):
        self._cache_directory = str(d)


def store_race_case(schedule, n_clients, dpos=None):
    global _STORE
    if _STORE is None:
        _STORE = _coop_store()
    data = b'{"verified snapshot bytes": true}'
    with world.scratch('c18k4') as d:
        path = 'snapshots/ab/cdef-0123'
        gens = []
        for i in range(n_clients):
            g = _STORE(_CacheSelf(d), path, data)
            gens.append(g if hasattr(g, '__next__') else iter(()))
        live = [True] * n_clients
        errors = []
        other = 'snapshots/ab/other-9999'
        if dpos is not None:
            # another client sharing the cache directory holds one more entry in the same prefix directory and deletes
            # it (the real _delete_cached, one atomic step) after `dpos` steps of the storing clients
            Path(d, other).parent.mkdir(parents=True, exist_ok=True)
            Path(d, other).write_bytes(b'other entry')
        step_no = 0
        for s in list(schedule) + list(range(n_clients)) * 40:
            if dpos is not None and step_no == dpos:
                try:
                    Repository._delete_cached(_CacheSelf(d), other)
                except Exception as e:
                    errors.append('delete: ' + repr(e))
            step_no += 1
            if not any(live):
                break
            for off in range(n_clients):
                j = (s + off) % n_clients
                if live[j]:
                    try:
                        next(gens[j])
                    except StopIteration:
                        live[j] = False
                    except Exception as e:
                        live[j] = False
                        errors.append(repr(e))
                    break
        if errors:
            return False, f'{n_clients} clients storing the same snapshot into a shared cache: {errors[0]} (schedule {schedule})'
        f = Path(d, path)
        if not f.exists() or f.read_bytes() != data:
            return False, 'shared cache entry missing or different after concurrent stores'
        left = [p.name for p in f.parent.iterdir() if p.name != f.name and not (dpos is not None and dpos >= step_no and p.name == 'other-9999')]
        if left:
            return False, f'leftover files next to the cache entry: {left}'
        return True, ''


def k4_store_race(k: int) -> bool:
    """
    pre: shard(2 * 3 ** 6 * 8)[0] <= k < shard(2 * 3 ** 6 * 8)[1]
    post: _
    """
    sched = digits(k, [2] + [3] * 6 + [8])
    with NoTracing():
        n = sched[0] + 2
        dpos = sched.pop()
        ok, msg = store_race_case([x % n for x in sched[1:]], n, None if dpos == 7 else dpos)
        tick('k4', [n] + sched[1:])
        if not ok:
            _say(msg)
        return ok
