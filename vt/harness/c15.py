"""C15 - restore and the listings select exactly what the filters and timestamps say."""
from __future__ import annotations

import contextlib
import io
import os
import re
from collections import defaultdict
from datetime import datetime, timezone
from pathlib import Path
from typing import List

from crosshair.tracers import NoTracing

from vt import lift, rt, world
from vt.lift import RealFallback
from vt.core import digits, shard, tick
from vt.harness import hist
from vt.harness.gc import R, Repository, exceptions, fresh_repo, users

import replicat.utils as U
from replicat.utils import FileListColumn, SnapshotListColumn

REPLAY = bool(os.environ.get('VT_REPLAY'))


def _say(*a):
    if REPLAY:
        print('DETAIL:', *a)


# =========================================================================== S: selection logic of the restore plan
class _PlanSelf(RealFallback):
    _compile_or_none = Repository._compile_or_none

    def __init__(self):
        self.meta_calls = []

    def restore_metadata(self, path, metadata):
        self.meta_calls.append((path, metadata))

    def __getattr__(self, name):
        # helpers the statements may call on `self` (today none besides the two above) are the real ones
        import types
        attr = getattr(Repository, name)
        return types.MethodType(attr, self) if callable(attr) else attr


def _is_sort(s):
    import ast
    return isinstance(s, ast.Expr) and isinstance(s.value, ast.Call) and isinstance(s.value.func, ast.Attribute) and \
        s.value.func.attr == 'sort' and isinstance(s.value.func.value, ast.Name) and s.value.func.value.id == 'snapshots'


_PLAN = lift.lift_range('replicat.repository', 'restore', _is_sort, lambda s: lift.assigns(s, 'bytes_tracker'),
                        ['self', 'snapshots', 'file_regex', 'path'], ['chunks_references', 'files_digests', 'files_metadata', 'total_bytes'],
                        overrides={'logger': rt.Nop()})

PATHS = ['/s/a.txt', '/s/b.png', '/s/dir/a.txt']
FILTERS = [None, r'\.txt$', '^/s/b', 'nomatch', 'a']
STAMPS = ['2021-01-01 10:00:00.000001', '2021-01-01 10:00:00.000002', '2020-12-31 23:59:59.999999']


def s_select(present: List[bool], t0: int, t1: int, t2: int, fi: int) -> bool:
    """Three snapshots with symbolic timestamps (a permutation of three instants), symbolic presence of three paths in
    each, a filter from a pool: the plan holds exactly the matching paths, each from the newest snapshot containing it.
    pre: len(present) == 9 and 0 <= fi < 4
    pre: 0 <= t0 <= 2 and 0 <= t1 <= 2 and 0 <= t2 <= 2 and t0 != t1 and t1 != t2 and t0 != t2
    pre: present[2] and not present[5] and present[8]
    post: _
    """
    ts = [t0, t1, t2]
    snaps = []
    for s in range(3):
        files = [{'path': PATHS[p], 'chunks': [{'range': [0, 1], 'index': 0, 'counter': 1}], 'metadata': {'from': s}} for p in range(3) if present[s * 3 + p]]
        snaps.append({'chunks': [b's%d' % s], 'data': {'utc_timestamp': STAMPS[ts[s]], 'files': files}})
    regex = FILTERS[fi]
    cr, fd, fm, total = _PLAN(_PlanSelf(), list(snaps), regex, Path('/t'))
    ok = True
    order = sorted(range(3), key=lambda s: STAMPS[ts[s]], reverse=True)
    for p in range(3):
        name = PATHS[p]
        with NoTracing():
            matches = regex is None or re.search(regex, name) is not None
        src = None
        for s in order:
            if present[s * 3 + p]:
                src = s
                break
        if src is None or not matches:
            if name in fm or name in fd:
                ok = False
        else:
            if name not in fm or fm[name][1] != {'from': src} or fd.get(name) != {b's%d' % src}:
                ok = False
            if sum(1 for lst in cr.values() for ref in lst if ref[0] == name) != 1:
                ok = False
    with NoTracing():
        tick('s_select', None)
    return ok


# =========================================================================== E: real commands on histories
V = {1: b'version one of the file\n', 2: b'VERSION TWO, a bit longer than one\n'}
SFILT = ['all', 'first', 'second', 'none', 'first-or-third']
FFILT = [None, 'p0', r'p[01]\.bin$', 'zzz', r'^/.*keep']
ALLCOLS_F = [FileListColumn.SNAPSHOT_NAME, FileListColumn.SNAPSHOT_DATE, FileListColumn.PATH, FileListColumn.CHUNK_COUNT, FileListColumn.SIZE,
             FileListColumn.DIGEST, FileListColumn.MTIME]
ALLCOLS_S = [SnapshotListColumn.NAME, SnapshotListColumn.NOTE, SnapshotListColumn.TIMESTAMP, SnapshotListColumn.FILE_COUNT, SnapshotListColumn.SIZE]


def _out(fn):
    buf = io.StringIO()
    with contextlib.redirect_stdout(buf):
        res = fn()
    return buf.getvalue(), res


COLMODES = ['all', 'default', 'reversed-subset']


def _cols(mode, allcols, default_idx, subset_idx):
    if mode == 'all':
        return list(allcols), list(range(len(allcols)))
    if mode == 'default':
        return None, default_idx
    return [allcols[i] for i in subset_idx], subset_idx


def listing_case(h0, h1, h2, sf, ff, header, colmode='all', clock='plain'):
    U_ = users(True)          # (built before the clock is set up: its constructor re-initialises the clock model)
    rt.determinism(31)
    import contextlib
    with (rt.dst_night() if clock == 'dst' else contextlib.nullcontext()), world.scratch('c15') as d:
        be = rt.MemBackend({'config': U_.config})
        src = d / 'src'
        src.mkdir()
        snaps = []
        for i, code in enumerate((h0, h1, h2)):
            files = {}
            if code == 'only-empty':
                # a snapshot of nothing but one emptied file: it is recorded without any chunk reference
                f = src / 'p0.bin'
                f.write_bytes(b'')
                os.utime(f, ns=(10 ** 18 + i, 1_300_000_000_000_000_000 + 1_000_000_000 * (i * 2)))
                files[str(f.resolve())] = b''
                paths = [f]
            elif code == 'procfs':
                # a file whose fstat size (0) is not the number of bytes it yields: sizes must come from what was stored
                pf = Path('/proc/version')
                k = src / 'keep.bin'
                k.write_bytes(b'constant')
                os.utime(k, ns=(10 ** 18, 1_200_000_000_000_000_000))
                files[str(k.resolve())] = b'constant'
                paths = [src / 'keep.bin']
                if pf.exists():
                    files[str(pf)] = pf.read_bytes()
                    paths.append(pf)
            else:
                st = [code % 3, code // 3]
                for p in (0, 1):
                    f = src / f'p{p}.bin'
                    if st[p] == 0:
                        if f.exists():
                            f.unlink()
                    else:
                        f.write_bytes(V[st[p]] + bytes([65 + i]) * (i if st[p] == 2 else 0))
                        os.utime(f, ns=(10 ** 18 + i, 1_300_000_000_000_000_000 + 1_000_000_000 * (i * 2 + p)))
                        files[str(f.resolve())] = f.read_bytes()
                k = src / 'keep.bin'
                k.write_bytes(b'constant')
                os.utime(k, ns=(10 ** 18, 1_200_000_000_000_000_000))
                files[str(k.resolve())] = b'constant'
                paths = [src]
            repo = fresh_repo(U_, 'A', be)
            tick0 = rt._DetDatetime._tick
            res = rt.MiniLoop().run_until_complete(repo.snapshot(paths=paths, note=None if i == 1 else f'nöte ✓ {i}'))
            # ground truth for "true times" and "newest first" is the harness clock (UTC), not what the snapshot recorded
            true_ts = str(rt._DetDatetime.true_utc(tick0 + 1))
            snaps.append({'name': res.name, 'files': files, 'ts': true_ts, 'note': None if i == 1 else f'nöte ✓ {i}',
                          'data': res.data, 'chunks': res.chunks, 'mtimes': {p: os.stat(p).st_mtime_ns for p in files}})
        # a snapshot of the independent user must never show up
        repo_c = fresh_repo(U_, 'C', be)
        rt.MiniLoop().run_until_complete(repo_c.snapshot(paths=[src]))
        sregex = {'all': None, 'first': '^' + snaps[0]['name'][:12], 'second': snaps[1]['name'][5:30], 'none': '^zz',
                  'first-or-third': '^' + snaps[0]['name'][:10] + '|' + snaps[2]['name'][-9:] + '$'}[SFILT[sf]]
        fregex = FFILT[ff]
        sel = [s for s in snaps if sregex is None or re.search(sregex, s['name'])]
        sel.sort(key=lambda s: s['ts'], reverse=True)
        # ---- list_snapshots
        repo = fresh_repo(U_, 'A', be)
        cols_s, idx_s = _cols(colmode, ALLCOLS_S, [0, 1, 2, 3, 4], [4, 0, 3])
        out, _ = _out(lambda: rt.MiniLoop().run_until_complete(repo.list_snapshots(snapshot_regex=sregex, header=bool(header), columns=cols_s)))
        lines = [l for l in out.splitlines() if l.strip()]
        if header and sel:
            lines = lines[1:]
        rows = [[c.strip() for c in l.split('\t')] for l in lines]
        name_col = idx_s.index(0)
        if [r[name_col] for r in rows] != [s['name'] for s in sel]:
            return False, f'list_snapshots -S {sregex!r}: names/order {[r[0][:6] for r in rows]} expected {[s["name"][:6] for s in sel]}'
        for r, s in zip(rows, sel):
            size = sum(len(b) for b in s['files'].values())
            want = [s['name'], s['note'] or '--', s['ts'][:19], str(len(s['files'])), U.bytes_to_human(size)]
            want = [want[i] for i in idx_s]
            if r != want:
                return False, f'list_snapshots row {r} expected {want}'
        # ---- list_files
        repo = fresh_repo(U_, 'A', be)
        cols_f, idx_f = _cols(colmode, ALLCOLS_F, [1, 2, 3, 4, 6], [5, 2, 0])
        out, _ = _out(lambda: rt.MiniLoop().run_until_complete(repo.list_files(snapshot_regex=sregex, file_regex=fregex, header=bool(header), columns=cols_f)))
        lines = [l for l in out.splitlines() if l.strip()]
        want_rows = []
        for s in sel:
            for fdata in s['data']['files']:
                p = fdata['path']
                if fregex is None or re.search(fregex, p):
                    # (the mtime the harness set with utime before that snapshot, not the one read back from the record)
                    mt = datetime.fromtimestamp((fdata['metadata']['st_mtime_ns'] if p.startswith('/proc/') else s['mtimes'][p]) / 1e9, tz=timezone.utc).replace(tzinfo=None).isoformat(sep=' ', timespec='seconds')
                    want_rows.append([s['name'], s['ts'][:19], p, str(len(fdata['chunks'])), U.bytes_to_human(len(s['files'][p])),
                                      repo.props.hash_digest(s['files'][p]).hex(), mt])      # digest recomputed from the bytes, not read back
        if header and want_rows:
            lines = lines[1:]
        rows = [[c.strip() for c in l.split('\t')] for l in lines]
        order_names = [w[0] for w in want_rows]
        want_rows = [[w[i] for i in idx_f] for w in want_rows]
        key_col = idx_f.index(0) if 0 in idx_f else None
        if key_col is not None and [r[key_col] for r in rows] != order_names:
            return False, f'list_files: snapshot order/selection differs ({len(rows)} rows, expected {len(want_rows)})'
        if sorted(map(tuple, rows)) != sorted(map(tuple, want_rows)):
            return False, f'list_files rows differ: {rows[:1]} vs {want_rows[:1]}'
        # ---- restore
        target = d / 'out'
        repo = fresh_repo(U_, 'A', be)
        res = rt.MiniLoop().run_until_complete(repo.restore(snapshot_regex=sregex, file_regex=fregex, path=target))
        expect = {}
        for s in reversed(sel):           # oldest first, newer overwrite
            for p, b in s['files'].items():
                if fregex is None or re.search(fregex, p):
                    expect[p] = b
        got = {'/' + k: v[0] for k, v in world.tree_state(target).items()}
        if got != expect:
            return False, f'restore -S {sregex!r} -F {fregex!r} wrote {sorted((k.rsplit("/", 1)[1], len(v)) for k, v in got.items())} expected {sorted((k.rsplit("/", 1)[1], len(v)) for k, v in expect.items())}'
        if sorted(res.files) != sorted(expect):
            return False, 'restore reports a different file list'
        # ---- printed names are what delete accepts; unknown names are refused before anything is deleted
        if sel:
            be2 = rt.MemBackend(dict(be.objs))
            r2 = fresh_repo(U_, 'A', be2)
            try:
                rt.MiniLoop().run_until_complete(r2.delete_snapshots([sel[0]['name'], 'ab' * 32], confirm=False))
                return False, 'delete accepted an unknown name'
            except exceptions.ReplicatError:
                if be2.objs != be.objs:
                    return False, 'delete with an unknown name removed something before refusing'
            rt.MiniLoop().run_until_complete(fresh_repo(U_, 'A', be2).delete_snapshots([sel[0]['name']], confirm=False))
            left = {k.rpartition('-')[2] for k in be2.objs if k.startswith('snapshots/')}
            if sel[0]['name'] in left or len(left) != 3:
                return False, 'delete by printed name did not remove exactly that snapshot'
        return True, ''


def e_listing(k: int) -> bool:
    """
    pre: shard(9 * 9 * 5 * 5 * 5 * 2)[0] <= k < shard(9 * 9 * 5 * 5 * 5 * 2)[1]
    post: _
    """
    h0, h1, h2, sf, ff, header = digits(k, [9, 9, 5, 5, 5, 2])
    with NoTracing():
        cm = (h0 + h1 + h2 + sf + ff) % 3        # column selection rotates with the other digits
        # every 4th vector: a daylight-saving zone and snapshots 30 minutes apart in the night the clocks go forward
        clock = 'dst' if (h0 + 2 * h1 + sf + header) % 4 == 0 else 'plain'
        ok, msg = listing_case(h0, h1, [4, 0, 8, 'only-empty', 'procfs'][h2], sf, ff, header, COLMODES[cm], clock)
        tick('e_listing', [h0, h1, h2, SFILT[sf], FFILT[ff], header, COLMODES[cm], clock])
        if not ok:
            _say(h0, h1, h2, SFILT[sf], FFILT[ff], header, msg)
        return ok
