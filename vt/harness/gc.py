"""Shared harness for C02 / C06 / C08: one destructive command from an arbitrary consistent repository state.

Users: A (caller, owner key), B (key shared with A: same family), C (independent key: other family).
State vector: owner of each snapshot, reference matrix snapshot x digest, orphan objects, command.
E obligations use the real crypto adapters (AES-GCM, blake2b, scrypt n=4) and the real command bodies on the
deterministic mini loop with an in-memory backend; S obligations trace the command with idealised crypto.
"""
from __future__ import annotations

import os
from typing import List

from crosshair.core import realize
from crosshair.tracers import NoTracing

from vt import rt
from vt.core import digits, shard, tick

R = rt.patch_repository_for_miniloop()
from replicat import exceptions  # noqa: E402
from replicat.repository import Repository  # noqa: E402

REPLAY = bool(os.environ.get('VT_REPLAY'))
PLAIN = [bytes([65 + j]) * 8 for j in range(4)]


def _say(*a):
    if REPLAY:
        print('DETAIL:', *a)


def _run(coro):
    return rt.MiniLoop().run_until_complete(coro)


class Users:
    """Real keys: A = init, B = add_key(shared=True) by A, C = add_key(shared=False)."""

    def __init__(self, encrypted=True):
        # encrypted may be True, False, or 'h32' / 'sha256': encrypted with a non-default digest size (names and tags then
        # have the length of the key's MAC, the digests that of the configured hash)
        hashing = {'h32': {'name': 'blake2b', 'length': 32}, 'sha256': {'name': 'sha2', 'bits': 256}}.get(encrypted)
        self.variant = encrypted
        encrypted = bool(encrypted)
        self.encrypted = encrypted
        rt.determinism(1 if encrypted else 2)
        be = rt.MemBackend()
        a = Repository(be, concurrent=2, cache_directory=None)
        with rt.silence():
            init = _run(a.init(password=b'pa', settings=rt.fast_settings(encrypted=encrypted, hashing=hashing)))
        self.config = be.objs['config']
        self.keys = {'A': init.key}
        self.pw = {'A': b'pa', 'B': b'pb', 'C': b'pc'}
        if encrypted:
            with rt.silence():
                self.keys['B'] = _run(a.add_key(password=b'pb', shared=True, settings={'encryption': {'kdf': dict(rt.FAST_KDF)}})).new_key
                self.keys['C'] = _run(a.add_key(password=b'pc', shared=False, settings={'encryption': {'kdf': dict(rt.FAST_KDF)}})).new_key
        else:
            self.keys['B'] = self.keys['C'] = None
        self.repos = {}
        for u in 'ABC':
            r = Repository(rt.MemBackend({'config': self.config}), concurrent=2, cache_directory=None)
            _run(r.unlock(password=self.pw[u], key=self.keys[u]))
            self.repos[u] = r
        self.digest = [self.repos['A'].props.hash_digest(p) for p in PLAIN]

    def family(self, u):
        if not self.encrypted:
            return 0
        return 1 if u == 'C' else 0

    def chunk_loc(self, u, j):
        return self.repos[u]._chunk_digest_to_location(self.digest[j])

    def chunk_obj(self, u, j):
        r = self.repos[u]
        if not self.encrypted:
            return PLAIN[j]
        return r.props.encrypt(PLAIN[j], r.props.derive_shared_subkey(self.digest[j]))

    def snapshot_obj(self, u, i, refs):
        """(location, bytes, name) of a restorable snapshot i owned by u referencing digests `refs` (list of j)."""
        r = self.repos[u]
        body = {
            'chunks': [self.digest[j] for j in refs],
            'data': {
                'utc_timestamp': '2021-0%d-01 00:00:00.000000' % (i + 1),
                'files': [{
                    'path': '/src%d/f' % i,
                    'chunks': [{'range': [0, 8], 'index': k, 'counter': k + 1} for k in range(len(refs))],
                    'digest': r.props.hash_digest(b''.join(PLAIN[j] for j in refs)),
                    'metadata': {'st_mode': 0o100644, 'st_uid': 0, 'st_gid': 0, 'st_size': 8 * len(refs),
                                 'st_atime_ns': 10 ** 18, 'st_mtime_ns': 10 ** 18 + i, 'st_ctime_ns': 10 ** 18},
                }],
            },
        }
        data = r._encrypt_snapshot_body(body)
        name, tag = r._snapshot_digest_to_location_parts(r.props.hash_digest(data))
        return r.get_snapshot_location(name=name, tag=tag), data, name


_USERS = {}


def users(encrypted=True) -> Users:
    if encrypted not in _USERS:
        _USERS[encrypted] = Users(encrypted)
    return _USERS[encrypted]


OWNERS = 'ABC'
ORPHANS = [[], [(0, 0)], [(0, 3)], [(1, 0)], [(1, 3)], [(0, 3), (1, 3)]]   # (family, digest index)
OPS = ['clean', 'del0', 'del1', 'del01', 'delX']


def build_state(U: Users, owners, refs, orphans):
    """refs[i] = list of digest indices referenced by snapshot i. Returns (objs, snaps) where snaps[i] =
    dict(loc, name, owner, refs). Every referenced chunk is present under the owner's family (invariant I)."""
    objs = {'config': U.config, 'misc/readme.txt': b'not ours', 'datax': b'prefix lookalike'}
    snaps = []
    for i, (u, rf) in enumerate(zip(owners, refs)):
        loc, data, name = U.snapshot_obj(u, i, rf)
        objs[loc] = data
        snaps.append({'loc': loc, 'name': name, 'owner': u, 'refs': list(rf)})
        for j in rf:
            objs.setdefault(U.chunk_loc(u, j), U.chunk_obj(u, j))
    for fam, j in orphans:
        u = 'A' if fam == 0 else 'C'
        if fam == 1 and not U.encrypted:
            continue
        objs.setdefault(U.chunk_loc(u, j), U.chunk_obj(u, j))
    return objs, snaps


def check_after(U: Users, caller, op, before, snaps, be, raised):
    """Oracle for one destructive command. Returns (ok, msg)."""
    after = be.objs
    enc = U.encrypted
    fam_c = U.family(caller)
    # what the caller asked to delete
    if op == 'clean':
        targets = []
    else:
        idx = {'del0': [0], 'del1': [1], 'del01': [0, 1], 'delX': []}[op]
        targets = [snaps[i] for i in idx if i < len(snaps)]
    unknown = op == 'delX'
    # legality: caller may delete a snapshot iff it can decrypt its data (same user key); unencrypted: anyone
    def deletable(s):
        return (not enc) or s['owner'] == caller
    def visible(s):
        return (not enc) or U.family(s['owner']) == fam_c
    refused = False
    if op != 'clean':
        must_fail = unknown or any(not deletable(s) for s in targets)
        if must_fail:
            if raised is None:
                return False, f'{op} by {caller} should have been refused'
            if not isinstance(raised, exceptions.ReplicatError):
                return False, f'{op}: expected ReplicatError, got {raised!r}'
            gone = [s for s in targets if s['loc'] not in after]
            if any(not deletable(s) for s in gone):
                return False, f'{op} by {caller} removed a snapshot it has no right to delete'
            # a refused command may have deleted the caller's own named snapshots (or nothing); what it did delete
            # is judged by the same safety and confinement rules, completeness is not demanded
            targets = gone
            refused = True
            raised = None
    if raised is not None:
        return False, f'{op} by {caller} raised {raised!r}'
    deleted = set(before) - set(after)
    if set(after) - set(before):
        return False, f'objects created: {sorted(set(after) - set(before))}'
    for k in after:
        if after[k] != before[k]:
            return False, f'object {k} overwritten'
    remaining = [s for s in snaps if s not in targets]
    # safety (C02): remaining snapshots and all their chunks survive, for every family
    for s in remaining:
        if s['loc'] not in after:
            return False, f'snapshot {s["name"][:8]} of {s["owner"]} removed'
        for j in s['refs']:
            if U.chunk_loc(s['owner'], j) not in after:
                return False, f'chunk {j} still referenced by snapshot of {s["owner"]} was removed by {op} of {caller}'
    # confinement (C08): nothing outside data/ and snapshots/, nothing of the other family
    for k in deleted:
        if not (k.startswith('data/') or k.startswith('snapshots/')):
            return False, f'{k} deleted (outside the chunk/snapshot areas)'
    own_chunk_locs = {U.chunk_loc(caller, j): j for j in range(4)}
    for k in deleted:
        if k.startswith('data/') and k not in own_chunk_locs:
            return False, f'foreign chunk object {k} deleted'
    for s in targets:
        if s['loc'] in after:
            return False, f'snapshot {s["name"][:8]} not deleted'
    if refused:
        return True, ''
    if any(k.startswith('snapshots/') and k not in [s['loc'] for s in targets] for k in deleted):
        return False, 'a snapshot that was not named was deleted'
    # completeness (C08)
    fam_refs = set()
    for s in remaining:
        if U.family(s['owner']) == fam_c or not enc:
            fam_refs.update(s['refs'])
    if op == 'clean':
        for loc, j in own_chunk_locs.items():
            if loc in before and (j in fam_refs) != (loc in after):
                return False, f'clean: own-family chunk {j} referenced={j in fam_refs} present_after={loc in after}'
    else:
        for s in targets:
            for j in s['refs']:
                if j not in fam_refs and own_chunk_locs_inv(U, caller, j) in after:
                    return False, f'delete: chunk {j} referenced only by deleted snapshots is still there'
    return True, ''


def own_chunk_locs_inv(U, caller, j):
    return U.chunk_loc(caller, j)


def fresh_repo(U, user, be, concurrent=2, cache_directory=None):
    """A new Repository instance (own slot queue) holding the user's unlocked props."""
    r = Repository(be, concurrent=concurrent, cache_directory=cache_directory)
    r.props = U.repos[user].props
    return r


def run_case(encrypted, caller, owners, refs, orphans, op, delays=None, prev=None, confirm=None, loglevel=None):
    """loglevel: None (default WARNING), 20 (-v) or 10 (-vv): what a command does must not depend on how much of it is logged (C08_g)."""
    with rt.verbosity(loglevel):
        return _run_case(encrypted, caller, owners, refs, orphans, op, delays, prev, confirm)


def _run_case(encrypted, caller, owners, refs, orphans, op, delays=None, prev=None, confirm=None):
    U = users(encrypted)
    rt.determinism(7)
    objs, snaps = build_state(U, owners, refs, orphans)
    be = rt.MemBackend(objs, delays=delays)
    if prev is None:
        repo = fresh_repo(U, caller, be)
    else:
        # a long-lived client object that was used by `prev` (listed the snapshots) and is then unlocked again with the
        # caller's key, as library users and the test-suite do
        import contextlib
        import io
        repo = fresh_repo(U, prev, be)
        with contextlib.redirect_stdout(io.StringIO()):
            _run(repo.list_snapshots())
        _run(repo.unlock(password=U.pw[caller], key=U.keys[caller]))
        if be.objs != objs:
            return False, 'listing changed the store'
    before = dict(objs)
    raised = None
    try:
        if op == 'clean':
            _run(repo.clean())
        else:
            idx = {'del0': [0], 'del1': [1], 'del01': [0, 1], 'delX': []}[op]
            names = [snaps[i]['name'] for i in idx if i < len(snaps)]
            if op == 'delX':
                names = ['ab' * 32]
            if confirm is None:
                _run(repo.delete_snapshots(names, confirm=False))
            else:
                # the interactive path: the command asks, the user answers `confirm` ('y' / 'n')
                import contextlib
                import io
                asked = []
                R.input = lambda prompt='': (asked.append(prompt), confirm)[1]
                try:
                    with contextlib.redirect_stdout(io.StringIO()):
                        _run(repo.delete_snapshots(names, confirm=True))
                finally:
                    del R.input
                if confirm != 'y':
                    if be.objs != before:
                        return False, f'delete answered {confirm!r} at the prompt changed the store'
                    return True, ''
    except Exception as e:
        raised = e
    if be.counts['upload'] or be.counts['upload_stream']:
        return False, 'destructive command uploaded something'
    if be.max_inflight > 2:
        return False, f'{be.max_inflight} backend calls in flight with concurrency 2'
    return check_after(U, caller, op, before, snaps, be, raised)


# --------------------------------------------------------------------------- destructive commands with one failing backend call (C06_d)
FAULT_OPS = [('download', 0), ('download', 1), ('download', 2), ('delete', 0), ('delete', 1), ('exists', 0)]
FAULT_EXCS = [None, lambda: TimeoutError('injected timeout'), lambda: ConnectionResetError(104, 'injected reset'), lambda: OSError(5, 'injected I/O error')]


def fault_case(encrypted, caller, owners, refs, orphans, op, fop, exc_i):
    """One backend call of the command fails for good (a backend error, a timeout, a reset, EIO). The command may raise; but
    whatever it reports, every snapshot object still in the store keeps all the chunks it references (of every user), nothing
    is created or overwritten, and nothing outside the caller's own chunk objects and named snapshots is removed."""
    U = users(encrypted)
    rt.determinism(7)
    objs, snaps = build_state(U, owners, refs, orphans)
    be = rt.MemBackend(objs, fail_op=fop, fail_exc=FAULT_EXCS[exc_i])
    repo = fresh_repo(U, caller, be)
    before = dict(objs)
    raised = None
    try:
        if op == 'clean':
            _run(repo.clean())
        else:
            idx = {'del0': [0], 'del1': [1], 'del01': [0, 1]}[op]
            _run(repo.delete_snapshots([snaps[i]['name'] for i in idx if i < len(snaps)], confirm=False))
    except Exception as e:
        raised = e
    hit = be._opn[fop[0]] > fop[1]
    if not hit:
        # the failing call was never reached: the ordinary oracle applies
        ok, msg = check_after(U, caller, op, before, snaps, be, raised)
        return ok, msg, False
    after = be.objs
    what = f"{op} by {caller} with {fop[0]} #{fop[1]} failing ({type(raised).__name__ if raised else 'command reported success'})"
    if set(after) - set(before):
        return False, f'{what}: objects created', True
    for k in after:
        if after[k] != before[k]:
            return False, f'{what}: object {k} overwritten', True
    for s in snaps:
        if s['loc'] in after:
            for j in s['refs']:
                if U.chunk_loc(s['owner'], j) not in after:
                    return False, f"{what}: snapshot of {s['owner']} is still in the store but its chunk {j} was removed", True
    deleted = set(before) - set(after)
    own_chunk_locs = {U.chunk_loc(caller, j) for j in range(4)}
    named = set()
    if op != 'clean':
        named = {snaps[i]['loc'] for i in {'del0': [0], 'del1': [1], 'del01': [0, 1]}[op] if i < len(snaps)}
    for k in deleted:
        if k.startswith('data/'):
            if k not in own_chunk_locs:
                return False, f'{what}: foreign chunk object deleted', True
        elif k not in named:
            return False, f'{what}: {k} deleted', True
    for s in snaps:
        if s['loc'] in deleted and U.encrypted and s['owner'] != caller:
            return False, f"{what}: snapshot of {s['owner']} deleted by {caller}", True
    if raised is None and fop[0] != 'exists':
        return False, f'{what}: a backend call failed for good but the command reported success', True
    return True, '', True


def _g_fault(ci, oc, bits, opi, fi, ei):
    owners = [OWNERS[oc % 3], OWNERS[oc // 3]]
    refs = _refs_from_bits(bits, 2, 2)
    op = ['clean', 'del0', 'del01'][opi]
    caller = 'AB'[ci]
    # the caller only names snapshots it owns (refusals are the subject of G.e)
    if op != 'clean':
        owners[0] = caller
        if op == 'del01':
            owners[1] = caller
    ok, msg, hit = fault_case(True, caller, owners, refs, [(0, 3)], op, FAULT_OPS[fi], ei)
    tick('g_fault', [caller, owners, refs, op, fi, ei, hit])
    if not ok:
        _say(msg)
    return ok


def g_fault(k: int) -> bool:
    """Quick tier: the error type rotates with the other digits (every type meets every failing call and command).
    pre: shard(2 * 9 * 16 * 3 * 6)[0] <= k < shard(2 * 9 * 16 * 3 * 6)[1]
    post: _
    """
    ci, oc, bits, opi, fi = digits(k, [2, 9, 16, 3, 6])
    with NoTracing():
        return _g_fault(ci, oc, bits, opi, fi, (fi + opi + bits + oc) % 4)


def g_fault_full(k: int) -> bool:
    """
    pre: shard(2 * 9 * 16 * 3 * 6 * 4)[0] <= k < shard(2 * 9 * 16 * 3 * 6 * 4)[1]
    post: _
    """
    ci, oc, bits, opi, fi, ei = digits(k, [2, 9, 16, 3, 6, 4])
    with NoTracing():
        return _g_fault(ci, oc, bits, opi, fi, ei)


def _refs_from_bits(bits, nsnap, ndig):
    return [[j for j in range(ndig) if (bits >> (i * ndig + j)) & 1] for i in range(nsnap)]


def _decode(k, radices):
    out = []
    for r in radices:
        out.append(k % r)
        k //= r
    return out


# --------------------------------------------------------------------------- E obligations (real crypto)
Q_RADICES = [9, 16, 3, 5]          # owners(2 snaps), refs 2x2, orphan code (none, own d0, own d3), op


def g_quick(k: int) -> bool:
    """
    pre: shard(9 * 16 * 3 * 5)[0] <= k < shard(9 * 16 * 3 * 5)[1]
    post: _
    """
    oc, bits, orph, opi = digits(k, Q_RADICES)
    with NoTracing():
        owners = [OWNERS[oc % 3], OWNERS[oc // 3]]
        refs = _refs_from_bits(bits, 2, 2)
        # every other vector: the client object was used by another user before (B shared / C independent / A itself)
        prev = [None, 'C', None, 'B', None, 'A'][(oc + bits + orph + opi) % 6]
        # every third delete goes through the confirmation prompt (answered y; every ninth: n)
        confirm = None if OPS[opi] == 'clean' else [None, None, 'y', None, 'y', None, None, 'y', 'n'][(oc + 2 * bits + orph) % 9]
        # every fourth vector runs as `-vv` (DEBUG), another fourth as `-v` (INFO)
        loglevel = [None, 10, None, 20][(oc + bits + 2 * orph + opi) % 4]
        ok, msg = run_case(True, 'A', owners, refs, ORPHANS[orph], OPS[opi], prev=prev, confirm=confirm, loglevel=loglevel)
        tick('g_quick', [owners, refs, orph, OPS[opi], prev, confirm, loglevel])
        if not ok:
            _say(owners, refs, ORPHANS[orph], OPS[opi], msg)
        return ok


def g_hash(k: int) -> bool:
    """The same state vectors in encrypted repositories whose hash is blake2b-256 or SHA-256 (digest size differs from the
    size of the MAC that names the objects).
    pre: shard(9 * 16 * 3 * 5)[0] <= k < shard(9 * 16 * 3 * 5)[1] and k % 3 == 0
    post: _
    """
    oc, bits, orph, opi = digits(k, Q_RADICES)
    with NoTracing():
        owners = [OWNERS[oc % 3], OWNERS[oc // 3]]
        refs = _refs_from_bits(bits, 2, 2)
        variant = ['h32', 'sha256'][(oc + bits) % 2]
        ok, msg = run_case(variant, 'A', owners, refs, ORPHANS[orph], OPS[opi])
        tick('g_hash', [variant, owners, refs, orph, OPS[opi]])
        if not ok:
            _say(variant, owners, refs, ORPHANS[orph], OPS[opi], msg)
        return ok


def g_quick3(k: int) -> bool:
    """Three snapshots (two of the caller, the third of any user) x 3x2 reference matrix x {delete both, delete first, clean}.
    pre: shard(3 * 64 * 3)[0] <= k < shard(3 * 64 * 3)[1]
    post: _
    """
    o2, bits, opi = digits(k, [3, 64, 3])
    with NoTracing():
        owners = ['A', 'A', OWNERS[o2]]
        refs = _refs_from_bits(bits, 3, 2)
        op = ['del01', 'del0', 'clean'][opi]
        ok, msg = run_case(True, 'A', owners, refs, [(0, 3)], op)
        tick('g_quick3', [owners, refs, op])
        if not ok:
            _say(owners, refs, op, msg)
        return ok


def g_unenc(k: int) -> bool:
    """Unencrypted repository: one family, every user may delete anything.
    pre: shard(64 * 3 * 5)[0] <= k < shard(64 * 3 * 5)[1]
    post: _
    """
    bits, orph, opi = digits(k, [64, 3, 5])
    with NoTracing():
        refs = _refs_from_bits(bits, 2, 3)
        loglevel = [None, 10, 20][(bits + orph + opi) % 3]
        ok, msg = run_case(False, 'A', ['A', 'B'], refs, ORPHANS[orph], OPS[opi], loglevel=loglevel)
        tick('g_unenc', [refs, orph, OPS[opi], loglevel])
        if not ok:
            _say(refs, ORPHANS[orph], OPS[opi], msg)
        return ok


T_RADICES = [27, 512, 6, 5, 2]     # owners(3 snaps), refs 3x3, orphan code, op, caller A/C


def g_thorough(j: int) -> bool:
    """
    pre: shard(27 * 512 * 6 * 5 * 2 // 7)[0] <= j < shard(27 * 512 * 6 * 5 * 2 // 7)[1]
    post: _
    """
    oc, bits, orph, opi, ci = digits(j * 7, T_RADICES)
    with NoTracing():
        owners = [OWNERS[oc % 3], OWNERS[(oc // 3) % 3], OWNERS[oc // 9]]
        refs = _refs_from_bits(bits, 3, 3)
        caller = 'AC'[ci]
        ok, msg = run_case(True, caller, owners, refs, ORPHANS[orph], OPS[opi], delays=[0, 2, 1])
        tick('g_thorough', [caller, owners, refs, orph, OPS[opi]])
        if not ok:
            _say(caller, owners, refs, ORPHANS[orph], OPS[opi], msg)
        return ok


# --------------------------------------------------------------------------- S obligations (traced, idealised crypto)
class _IdealUsers:
    """Same shape as Users but with injective/ideal primitives so that the command can be traced by CrossHair."""
    encrypted = True

    def __init__(self):
        self.props = {
            'A': rt.ideal_props(True, userkey=b'ua', shared=b's0', mackey=b'0'),
            'B': rt.ideal_props(True, userkey=b'ub', shared=b's0', mackey=b'0'),
            'C': rt.ideal_props(True, userkey=b'uc', shared=b's1', mackey=b'1'),
        }
        self.repos = {}
        for u in 'ABC':
            r = Repository(rt.MemBackend(), concurrent=2, cache_directory=None)
            r.props = self.props[u]
            self.repos[u] = r
        self.digest = [b'H' + p for p in PLAIN]
        self.config = b'{}'

    family = Users.family
    chunk_loc = Users.chunk_loc
    chunk_obj = Users.chunk_obj
    snapshot_obj = Users.snapshot_obj


_IDEAL = None


def ideal_users():
    global _IDEAL
    if _IDEAL is None:
        _IDEAL = _IdealUsers()
    return _IDEAL


def s_clean(ref0: List[bool], ref1: List[bool], orphan_own: bool, orphan_foreign: bool, o0: int, o1: int) -> bool:
    """Traced clean() by A from a symbolic state: 2 snapshots x 2 digests, symbolic owners and orphans.
    pre: len(ref0) == 2 and len(ref1) == 2 and 0 <= o0 <= 2 and 0 <= o1 <= 2
    post: _
    """
    U = ideal_users()
    owners = [OWNERS[o0], OWNERS[o1]]
    refs = [[j for j in range(2) if ref0[j]], [j for j in range(2) if ref1[j]]]
    orph = ([(0, 3)] if orphan_own else []) + ([(1, 3)] if orphan_foreign else [])
    objs, snaps = build_state(U, owners, refs, orph)
    be = rt.MemBackend(objs)
    repo = fresh_repo(U, 'A', be)
    before = dict(objs)
    raised = None
    try:
        _run(repo.clean())
    except exceptions.ReplicatError as e:
        raised = e
    ok, msg = check_after(U, 'A', 'clean', before, snaps, be, raised)
    with NoTracing():
        tick('s_clean', None)
    return ok


def s_delete(ref0: List[bool], ref1: List[bool], o0: int, o1: int, opi: int) -> bool:
    """Traced delete_snapshots() by A from a symbolic state.
    pre: len(ref0) == 2 and len(ref1) == 2 and 0 <= o0 <= 2 and 0 <= o1 <= 2 and 1 <= opi <= 4
    post: _
    """
    U = ideal_users()
    owners = [OWNERS[o0], OWNERS[o1]]
    refs = [[j for j in range(2) if ref0[j]], [j for j in range(2) if ref1[j]]]
    objs, snaps = build_state(U, owners, refs, [(0, 3)])
    be = rt.MemBackend(objs)
    repo = fresh_repo(U, 'A', be)
    before = dict(objs)
    raised = None
    op = OPS[opi]
    try:
        idx = {'del0': [0], 'del1': [1], 'del01': [0, 1], 'delX': []}[op]
        names = [snaps[i]['name'] for i in idx]
        if op == 'delX':
            names = ['ab' * 8]
        _run(repo.delete_snapshots(names, confirm=False))
    except exceptions.ReplicatError as e:
        raised = e
    ok, msg = check_after(U, 'A', op, before, snaps, be, raised)
    with NoTracing():
        tick('s_delete', None)
    return ok


# --------------------------------------------------------------------------- many snapshots (listing windows, batching)
MANY = [1, 7, 11, 21, 22, 43]


def many_case(ns, conc, op, pattern):
    U = users(True)
    rt.determinism(41)
    owners = ['A' if (i % 3) else 'B' for i in range(ns)]
    if pattern == 0:
        refs = [[i % 3] for i in range(ns)]
    elif pattern == 1:
        refs = [[0, 1] for _ in range(ns)]
    else:
        refs = [[] for _ in range(ns - 1)] + [[2]]
    objs = {'config': U.config}
    snaps = []
    for i, (u, rf) in enumerate(zip(owners, refs)):
        loc, data, name = U.snapshot_obj(u, i % 9, rf + ([3] if i == 5 else []))
        objs[loc] = data
        snaps.append({'loc': loc, 'name': name, 'owner': u, 'refs': rf + ([3] if i == 5 else [])})
        for j in snaps[-1]['refs']:
            objs.setdefault(U.chunk_loc(u, j), U.chunk_obj(u, j))
    be = rt.MemBackend(objs)
    repo = fresh_repo(U, 'A', be, concurrent=conc)
    target = None
    try:
        if op == 0:
            _run(repo.clean())
        else:
            mine = [s for s in snaps if s['owner'] == 'A']
            if not mine:
                return True, 'nothing to delete'
            target = mine[0] if op == 1 else mine[-1]
            _run(repo.delete_snapshots([target['name']], confirm=False))
    except Exception as e:
        return False, f'{ns} snapshots, concurrency {conc}: command raised {e!r}'
    remaining = [s for s in snaps if s is not target]
    for s in remaining:
        if s['loc'] not in be.objs:
            return False, f'{ns} snapshots: snapshot #{snaps.index(s)} removed'
        for j in s['refs']:
            if U.chunk_loc(s['owner'], j) not in be.objs:
                return False, f'{ns} snapshots, concurrency {conc}: chunk {j} referenced by remaining snapshot #{snaps.index(s)} was removed'
    if be.max_inflight > conc:
        return False, f'{be.max_inflight} calls in flight with concurrency {conc}'
    fam_refs = {j for s in remaining for j in s['refs']}
    for j in range(4):
        loc = U.chunk_loc('A', j)
        if op == 0 and loc in objs and (j in fam_refs) != (loc in be.objs):
            return False, f'{ns} snapshots: clean left chunk {j} referenced={j in fam_refs} present={loc in be.objs}'
        if op != 0 and target and j in target['refs'] and j not in fam_refs and loc in be.objs:
            return False, f'{ns} snapshots: delete left chunk {j} that only the deleted snapshot referenced'
    return True, ''


def g_many(k: int) -> bool:
    """Repositories with many snapshots (more than 10 x concurrency): clean / delete stay safe and complete.
    pre: 0 <= k < 6 * 2 * 3 * 3
    post: _
    """
    ni, ci, op, pat = digits(k, [6, 2, 3, 3])
    with NoTracing():
        ok, msg = many_case(MANY[ni], [1, 2][ci], op, pat)
        tick('g_many', [MANY[ni], [1, 2][ci], op, pat])
        if not ok:
            _say(msg)
        return ok
