"""C10/C11/C17: obligations on the LLVM IR of gclmulchunker::next_cut (z3 engine, run as 'python' obligations)."""
from __future__ import annotations

import json
import os
import random
import time
from pathlib import Path

import z3

from vt import ir2smt as I
from vt.core import WORK
from vt.ir2smt import BV, aligned

BOUND = int(os.environ.get('VT_IR_BOUND', '24'))


def _work():
    d = WORK / f'ir_{os.getpid()}'
    d.mkdir(parents=True, exist_ok=True)
    return d


def _cleanup():
    import shutil
    shutil.rmtree(WORK / f'ir_{os.getpid()}', ignore_errors=True)


def _fn():
    ll = I.build_ir(_work())
    return I.parse_function(ll, 'next_cut')


def P_valid(e, B):
    """The property's quantifier: 1 <= min <= max, an aligned length exists in [min, max], valid key."""
    return z3.And(z3.UGE(e.min, 1), z3.ULE(e.min, e.max), z3.ULE(e.max, B), z3.ULE(aligned(e.min), e.max), e.k0 != 0)


def P_accepted(e, B):
    """What the Python/C++ constructors accept: 1 <= min <= max (no aligned length required), valid key."""
    return z3.And(z3.UGE(e.min, 1), z3.ULE(e.min, e.max), z3.ULE(e.max, B), e.k0 != 0)


def WP(e):
    """Callee precondition established by the Python wrapper (obligation W2): a non-final cut is only requested once
    every 4-byte group up to max_length is buffered."""
    return z3.Or(e.final, z3.UGE(e.size, aligned(e.max)))


def _exec(pre_fn, B, exact=False, tag='', wp=True):
    fn = _fn()
    e = I.Env(tag=tag, exact=exact)
    pre = pre_fn(e, B)
    if wp:
        pre = z3.And(pre, WP(e))
    x = I.Exec(fn, e, pre, unroll=B // 4 + 2).run()
    return fn, e, x, pre


def _model_vals(m, e):
    out = {}
    for k, v in (('min', e.min), ('max', e.max), ('size', e.size), ('k0', e.k0), ('k1', e.k1)):
        out[k] = m.eval(v, True).as_long()
    out['final'] = bool(z3.is_true(m.eval(e.final, True)))
    return out


def _result(status, detail, t0, x=None, **extra):
    _cleanup()
    r = {'status': status, 'detail': detail, 'solver_s': round(time.time() - t0, 2), 'extra': extra}
    if x is not None:
        r['paths'] = len(x.results) + len(x.unwound)
        r['distinct'] = len(x.results)
        r['samples'] = [{'paths': len(x.results), 'loads': len(x.env.loads), 'feasibility_queries': x.solver_calls}]
    return r


# ----------------------------------------------------------------------------- N0 unwinding + N5 purity
def n0_unwind(exclude):
    t0 = time.time()
    fn, e, x, pre = _exec(P_accepted, BOUND, wp=False)
    if x.unwound:
        r, m, _ = I.check([z3.Or(x.unwound)])
        return _result('inconclusive' if r != 'unsat' else 'confirmed', f'unwinding bound reached by a feasible path: {r}', t0, x)
    return _result('confirmed', f'no path needs more than {BOUND // 4 + 2} iterations for max <= {BOUND}', t0, x, ir_hash=I.ir_hash(fn))


def n5_purity(exclude):
    t0 = time.time()
    fn = _fn()
    bad = list(fn['stores']) + [c for c in fn['calls'] if 'llvm.x86.pclmulqdq' not in c and not __import__('re').search(r'@llvm\.(umin|umax|smin|smax|assume|lifetime|dbg)', c)]
    if bad:
        return _result('refuted', 'next_cut writes memory or calls out: ' + '; '.join(bad)[:300], t0, None,
                       replay={'ok': False, 'ir': bad[:3]})
    e = I.Env()
    x = I.Exec(fn, e, P_accepted(e, BOUND), unroll=BOUND // 4 + 2).run()   # raises IRUnsupported on loads from elsewhere
    return _result('confirmed', 'no store, no call except pclmulqdq; every load is from this, the buffer descriptor or the buffer', t0, x)


def need_wp():
    """True iff next_cut can read outside the buffer when called without the wrapper precondition (then the Python
    adapter has to establish it: W2). False means the native code is memory-safe for every call."""
    fn, e, x, pre = _exec(P_accepted, 24, wp=False)
    bad = [z3.And(pc, z3.Or(z3.UGT(off + w, e.size), z3.UGT(off, off + w))) for pc, off, w in e.loads]
    r, m, dt = I.check([z3.Or(bad)]) if bad else ('unsat', None, 0)
    _cleanup()
    if r == 'unknown':
        raise I.IRUnsupported('need_wp: unknown')
    return r == 'sat'


# ----------------------------------------------------------------------------- N1 memory safety
def n1_memsafe(exclude):
    t0 = time.time()
    fn, e, x, pre = _exec(P_accepted, BOUND)
    bad = [z3.And(pc, z3.Or(z3.UGT(off + w, e.size), z3.UGT(off, off + w))) for pc, off, w in e.loads]
    if not bad:
        return _result('inconclusive', 'no buffer loads found (vacuous)', t0, x)
    r, m, dt = I.check([z3.Or(bad)])
    if r == 'sat':
        r_s, m_s, _ = I.check([z3.Or(bad), z3.ULE(e.size, 4 * BOUND + 8)])
        m = m_s if r_s == 'sat' else m
    if r == 'unsat':
        # reachability witness: some load is reachable at all
        r2, _, _ = I.check([z3.Or([pc for pc, _, _ in e.loads])])
        if r2 != 'sat':
            return _result('inconclusive', 'loads unreachable under the precondition (vacuous)', t0, x)
        return _result('confirmed', f'{len(e.loads)} buffer loads on {len(x.results)} paths all inside [0,size) under P and the wrapper precondition', t0, x)
    if r == 'sat':
        vals = _model_vals(m, e)
        rp = replay_oob(vals)
        return _result('refuted', f'load outside the buffer: {vals}', t0, x, replay=rp, cex=vals)
    return _result('inconclusive', 'solver: ' + r, t0, x)


def replay_oob(vals):
    """Replay on the source-built native code: the same data followed by different bytes in memory must not change
    the cut. (An out-of-bounds read that never influences the result is not observable and is reported as such.)"""
    lib = I.build_native(_work())
    rng = random.Random(1)
    key = vals['k0'].to_bytes(8, 'little') + vals['k1'].to_bytes(8, 'little')
    try:
        c = I.NativeChunker(lib, vals['min'], vals['max'], key)
    except ValueError:
        return {'ok': None, 'note': 'constructor rejects the model'}
    n = vals['size']
    for _ in range(300):
        data = rng.randbytes(n)
        a = c.next_cut_padded(data, vals['final'], b'\x00' * 8)
        b = c.next_cut_padded(data, vals['final'], b'\xff' * 8)
        d = c.next_cut_padded(data, vals['final'], rng.randbytes(8))
        if len({a, b, d}) > 1:
            return {'ok': False, 'data': data.hex(), 'cuts': [a, b, d], 'note': 'cut depends on bytes after the buffer'}
    return {'ok': False, 'note': 'solver model shows a read past the end (undefined behaviour); no influence on the cut found in 300 random buffers', 'ub_only': True}


# ----------------------------------------------------------------------------- N2/N3 contract
def contract(e, r):
    """Weakest contract under which the Python adapter yields a lossless, bounded, aligned chunking outside the tail zone:
    non-final: no cut (0) or a main cut; final: nothing from nothing, progress inside the last 2*max bytes, a main cut before."""
    mn, mx, sz, fin = e.min, e.max, e.size, e.final
    main = z3.And(z3.UGE(r, mn), z3.ULE(r, mx), r & 3 == 0, z3.ULE(r, sz))
    return z3.If(fin,
                 z3.If(sz == 0, r == 0, z3.If(z3.UGT(sz, 2 * mx), main, z3.UGE(r, 1))),
                 z3.Or(r == 0, main))


def n23_contract(exclude):
    t0 = time.time()
    fn, e, x, pre = _exec(P_valid, BOUND)
    bad = [z3.And(pc, z3.Not(contract(e, r))) for pc, r in x.results]
    r, m, dt = I.check([z3.Or(bad)])
    if r == 'sat':
        r_s, m_s, _ = I.check([z3.Or(bad), z3.ULE(e.size, 4 * BOUND + 8)])
        m = m_s if r_s == 'sat' else m
    if r == 'unsat':
        return _result('confirmed', 'non-final: 0 or (min<=r<=max, 4|r, r<=size); final: size=0 -> 0, size>2max -> main cut, else r>=1', t0, x)
    if r == 'sat':
        vals = _model_vals(m, e)
        rp = replay_contract(vals, m, e)
        return _result('refuted', f'cut outside the contract: {vals}', t0, x, replay=rp, cex=vals)
    return _result('inconclusive', 'solver: ' + r, t0, x)


def _py_contract(mn, mx, sz, fin, r):
    main = mn <= r <= mx and r % 4 == 0 and r <= sz
    if fin:
        if sz == 0:
            return r == 0
        return main if sz > 2 * mx else r >= 1
    return r == 0 or main


def replay_contract(vals, m=None, e=None, trials=400):
    lib = I.build_native(_work())
    key = vals['k0'].to_bytes(8, 'little') + vals['k1'].to_bytes(8, 'little')
    try:
        c = I.NativeChunker(lib, vals['min'], vals['max'], key)
    except ValueError:
        return {'ok': None, 'note': 'constructor rejects the model'}
    n = vals['size']
    if n > 1 << 20:
        return {'ok': None, 'note': 'size too large to replay'}
    cands = []
    if m is not None:
        cands.append(bytes(m.eval(z3.Select(e.mem, BV(i)), True).as_long() for i in range(n)))
    rng = random.Random(2)
    cands += [rng.randbytes(n) for _ in range(trials)]
    for data in cands:
        r = c.next_cut_padded(data, vals['final'], b'\x00' * 8)
        if not _py_contract(vals['min'], vals['max'], n, vals['final'], r):
            return {'ok': False, 'data': data.hex()[:200], 'cut': r}
    return {'ok': True, 'note': 'model did not reproduce on native code'}


# ----------------------------------------------------------------------------- C17 progress for every accepted (min,max)
def n_progress(exclude):
    t0 = time.time()
    fn, e, x, pre = _exec(P_accepted, BOUND)
    good = lambda r: z3.If(e.size == 0, r == 0, z3.Or(z3.UGE(r, 1), z3.Not(e.final)))  # noqa
    bad = [z3.And(pc, z3.Not(good(r))) for pc, r in x.results]
    r, m, dt = I.check([z3.Or(bad)])
    if r == 'unsat':
        return _result('confirmed', 'for every accepted (min,max): nothing is cut from an empty buffer and a final non-empty buffer always yields r >= 1 (termination + progress)', t0, x)
    if r == 'sat':
        vals = _model_vals(m, e)
        lib = I.build_native(_work())
        key = vals['k0'].to_bytes(8, 'little') + vals['k1'].to_bytes(8, 'little')
        c = I.NativeChunker(lib, vals['min'], vals['max'], key)
        data = bytes(m.eval(z3.Select(e.mem, BV(i)), True).as_long() for i in range(min(vals['size'], 4096)))
        rr = c.next_cut_padded(data, vals['final'], b'\x00' * 8)
        ok = (rr == 0) if len(data) == 0 else (rr >= 1 or not vals['final'])
        return _result('refuted', f'no progress / cut beyond the data: {vals} -> {rr}', t0, x, replay={'ok': ok, 'cut': rr}, cex=vals)
    return _result('inconclusive', 'solver: ' + r, t0, x)


# ----------------------------------------------------------------------------- N4 locality (2-safety)
def n4_locality(exclude):
    """Two calls in the main regime whose buffers agree on [0, aligned(max)) and that both decide on a cut (a non-final call
    may answer 0 = "not yet") return the same cut, whatever their sizes, tails and final flags (self-composition;
    pclmulqdq uninterpreted)."""
    t0 = time.time()
    fn = _fn()
    B = BOUND
    e1, e2 = I.Env(tag='_1'), I.Env(tag='_2')
    e2.min, e2.max, e2.k0, e2.k1 = e1.min, e1.max, e1.k0, e1.k1
    e2.uf = e1.uf

    def main_regime(e):
        return z3.Or(z3.And(z3.Not(e.final), z3.UGE(e.size, aligned(e.max))), z3.And(e.final, z3.UGT(e.size, 2 * e.max)))
    x1 = I.Exec(fn, e1, z3.And(P_valid(e1, B), main_regime(e1)), unroll=B // 4 + 2).run()
    x2 = I.Exec(fn, e2, z3.And(P_valid(e2, B), main_regime(e2)), unroll=B // 4 + 2).run()
    i = z3.BitVec('i', 64)
    agree = z3.ForAll([i], z3.Implies(z3.ULT(i, aligned(e1.max)), z3.Select(e1.mem, i) == z3.Select(e2.mem, i)))
    # quantifier-free instance: agreement on every index below B+3 (max <= B)
    agree_qf = z3.And([z3.Implies(z3.ULT(BV(j), aligned(e1.max)), z3.Select(e1.mem, BV(j)) == z3.Select(e2.mem, BV(j))) for j in range(B + 4)])
    r1 = z3.BitVec('r1', 64)
    r2 = z3.BitVec('r2', 64)
    f1 = z3.Or([z3.And(pc, r1 == r) for pc, r in x1.results])
    f2 = z3.Or([z3.And(pc, r2 == r) for pc, r in x2.results])
    r, m, dt = I.check([agree_qf, f1, f2, r1 != r2, r1 != 0, r2 != 0], timeout_ms=300000)
    if r == 'sat':   # prefer a model small enough to replay
        r_s, m_s, _ = I.check([agree_qf, f1, f2, r1 != r2, r1 != 0, r2 != 0, z3.ULE(e1.size, 4 * B + 8), z3.ULE(e2.size, 4 * B + 8)], timeout_ms=120000)
        if r_s == 'sat':
            m = m_s
    x1.results += x2.results
    if r == 'unsat':
        return _result('confirmed', 'cut in the main regime is a function of (min,max,key, bytes[0,aligned(max)))', t0, x1)
    if r == 'sat':
        v1, v2 = _model_vals(m, e1), _model_vals(m, e2)
        return _result('refuted', f'same prefix, different cuts: {v1} vs {v2}', t0, x1, replay=replay_locality(v1, v2), cex={'a': v1, 'b': v2})
    return _result('inconclusive', 'solver: ' + r, t0, x1)


def replay_locality(v1, v2):
    lib = I.build_native(_work())
    key = v1['k0'].to_bytes(8, 'little') + v1['k1'].to_bytes(8, 'little')
    c = I.NativeChunker(lib, v1['min'], v1['max'], key)
    rng = random.Random(3)
    A = (v1['max'] + 3) & -4
    if max(v1['size'], v2['size']) > 1 << 20:
        return {'ok': None, 'note': 'model sizes too large to replay'}
    for _ in range(400):
        pre = rng.randbytes(A)
        d1 = (pre + rng.randbytes(max(v1['size'] - A, 0)))[:max(v1['size'], 0)]
        d2 = (pre + rng.randbytes(max(v2['size'] - A, 0)))[:max(v2['size'], 0)]
        a = c.next_cut_padded(d1, v1['final'], b'\x00' * 8)
        b = c.next_cut_padded(d2, v2['final'], b'\xff' * 8)
        if a != b and a != 0 and b != 0:
            return {'ok': False, 'd1': d1.hex()[:120], 'd2': d2.hex()[:120], 'cuts': [a, b]}
    return {'ok': True, 'note': 'did not reproduce natively'}


# ----------------------------------------------------------------------------- translator validation
TEST_VECTORS = [  # (min, max, pieces) in the style of test_adapters.test_small_inputs_with_alignment
    (5, 10, [b'']), (5, 10, [b'a']), (5, 10, [b'abcdefghij']), (5, 10, [b'abcdefghijk']), (5, 10, [b'a' * 20]), (5, 10, [b'ab' * 13]),
    (4, 4, [b'abcd' * 5]), (10, 12, [b'xyz' * 11]), (4, 8, [bytes(range(40))]), (1, 4, [b'q' * 9]), (8, 8, [bytes(range(33))]),
]


def concrete_cut(fn, mn, mx, key, data, final):
    e = I.Env(exact=True)
    e.min, e.max = BV(mn), BV(mx)
    e.k0, e.k1 = BV(int.from_bytes(key[:8], 'little')), BV(int.from_bytes(key[8:], 'little'))
    e.size, e.final = BV(len(data)), z3.BoolVal(bool(final))
    mem = z3.K(z3.BitVecSort(64), BV(0, 8))
    for i, b in enumerate(data):
        mem = z3.Store(mem, BV(i), BV(b, 8))
    e.mem = mem
    x = I.Exec(fn, e, z3.BoolVal(True), unroll=mx // 4 + 3).run()
    if len(x.results) != 1:
        raise I.IRUnsupported(f'concrete run produced {len(x.results)} paths')
    return z3.simplify(x.results[0][1]).as_long()


def tv_translator(exclude):
    """The encoding agrees with native code built from the same source on the repo's test-style vectors and seeded buffers;
    the shipped extension is compared as well (a difference there is reported, not fatal)."""
    t0 = time.time()
    fn = _fn()
    lib = I.build_native(_work())
    import _replicat_adapters
    rng = random.Random(int(os.environ.get('VERIF_SEED', '0') or 0) + 5)
    cases = []
    for mn, mx, pieces in TEST_VECTORS:
        for d in pieces:
            for fin in (False, True):
                cases.append((mn, mx, b'\xff' * 16, d, fin))
    n_rand = int(os.environ.get('VT_TV_CASES', '120'))
    for _ in range(n_rand):
        mx = rng.randint(1, BOUND)
        mn = rng.randint(1, mx)
        key = rng.randbytes(16)
        if int.from_bytes(key[:8], 'little') == 0:
            continue
        n = rng.choice([0, 1, mx - 1, mx, mx + 1, mx + 3, 2 * mx - 1, 2 * mx, 2 * mx + 5, rng.randint(0, 3 * mx)])
        fin = rng.random() < 0.5
        if not fin and n < ((mx + 3) & -4):
            fin = True   # stay inside the wrapper precondition (outside it the native result depends on foreign memory)
        cases.append((mn, mx, key, rng.randbytes(max(n, 0)), fin))
    diff_model, diff_shipped = [], []
    for mn, mx, key, data, fin in cases:
        if not fin and len(data) < ((mx + 3) & -4) and len(data) >= mx:
            continue
        a = concrete_cut(fn, mn, mx, key, data, fin)
        b = I.NativeChunker(lib, mn, mx, key).next_cut(data, fin)
        c = _replicat_adapters._gclmulchunker(mn, mx, key).next_cut(bytearray(data), fin)
        if a != b:
            diff_model.append((mn, mx, key.hex(), data.hex(), fin, a, b))
        if b != c:
            diff_shipped.append((mn, mx, key.hex(), data.hex(), fin, b, c))
    if diff_model:
        return _result('inconclusive', f'encoding disagrees with native code built from the same source: {diff_model[:2]}', t0)
    r = _result('confirmed', f'{len(cases)} vectors: z3 encoding == source-built native code' +
                ('' if not diff_shipped else f'; NOTE shipped extension differs from the source on {len(diff_shipped)} vectors: {diff_shipped[:1]}'),
                t0, None, shipped_differs=len(diff_shipped))
    r['paths'] = len(cases)
    r['distinct'] = len({(c[0], c[1], c[3], c[4]) for c in cases})
    r['samples'] = [{'min': cases[-1][0], 'max': cases[-1][1], 'data': cases[-1][3].hex(), 'final': cases[-1][4]}]
    return r


# ----------------------------------------------------------------------------- C11: key sensitivity witness (bit-exact CLMUL)
def key_witness(exclude):
    """sat query: one 16-byte buffer, two keys, different cuts (min=4,max=12,final=False) - then replayed natively."""
    t0 = time.time()
    fn = _fn()
    e1, e2 = I.Env(tag='_a', exact=True), I.Env(tag='_b', exact=True)
    for e in (e1, e2):
        e.min, e.max, e.size, e.final = BV(4), BV(12), BV(16), z3.BoolVal(False)
    e1.k0, e1.k1 = z3.BitVec('ka0', 64), z3.BitVec('ka1', 64)
    e2.k0, e2.k1 = z3.BitVec('kb0', 64), z3.BitVec('kb1', 64)
    e2.mem = e1.mem
    x1 = I.Exec(fn, e1, e1.k0 != 0, unroll=6).run()
    x2 = I.Exec(fn, e2, e2.k0 != 0, unroll=6).run()
    r1, r2 = z3.BitVec('r1', 64), z3.BitVec('r2', 64)
    f1 = z3.Or([z3.And(pc, r1 == r) for pc, r in x1.results])
    f2 = z3.Or([z3.And(pc, r2 == r) for pc, r in x2.results])
    r, m, dt = I.check([f1, f2, r1 != r2, e1.k0 != 0, e2.k0 != 0], timeout_ms=300000)
    if r != 'sat':
        return _result('refuted' if r == 'unsat' else 'inconclusive', f'no pair of keys changes the cut of any 16-byte buffer ({r}): the key does not personalise boundaries',
                       t0, x1, replay={'ok': False if r == 'unsat' else None})
    data = bytes(m.eval(z3.Select(e1.mem, BV(i)), True).as_long() for i in range(16))
    ka = m.eval(e1.k0, True).as_long().to_bytes(8, 'little') + m.eval(e1.k1, True).as_long().to_bytes(8, 'little')
    kb = m.eval(e2.k0, True).as_long().to_bytes(8, 'little') + m.eval(e2.k1, True).as_long().to_bytes(8, 'little')
    lib = I.build_native(_work())
    ca = I.NativeChunker(lib, 4, 12, ka).next_cut(data, False)
    cb = I.NativeChunker(lib, 4, 12, kb).next_cut(data, False)
    if ca != cb and ca == m.eval(r1, True).as_long() and cb == m.eval(r2, True).as_long():
        return _result('confirmed', f'witness replayed natively: data={data.hex()} key_a={ka.hex()} -> {ca}, key_b={kb.hex()} -> {cb}', t0, x1)
    return _result('inconclusive', f'witness did not replay: model {m.eval(r1, True)},{m.eval(r2, True)} native {ca},{cb}', t0, x1)
