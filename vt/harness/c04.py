"""C04 - damaged or substituted objects are never restored silently."""
from __future__ import annotations

import contextlib
import os
import threading
from pathlib import Path

from crosshair.tracers import NoTracing

from vt import lift, rt, world
from vt.lift import RealFallback
from vt.core import digits, shard, tick
from vt.harness import c18, hist
from vt.harness.gc import R, Repository, exceptions, fresh_repo, users
from replicat.exceptions import DecryptionError, ReplicatError

REPLAY = bool(os.environ.get('VT_REPLAY'))


def _say(*a):
    if REPLAY:
        print('DETAIL:', *a)


# =========================================================================== D1: lifted restore._download_chunk
class _FakeBytesIO:
    def __init__(self):
        self.v = b''

    def write(self, d):
        self.v = self.v + d
        return len(d)

    def truncate(self, n=None):
        return n

    def getvalue(self):
        return self.v

    def __enter__(self):
        return self

    def __exit__(self, *a):
        pass


class _FakeIO:
    BytesIO = _FakeBytesIO


class _Pass:
    def __init__(self, s, **k):
        self.s = s

    def write(self, d):
        return self.s.write(d)

    def truncate(self, n=None):
        return self.s.truncate(n)

    def __enter__(self):
        return self

    def __exit__(self, *a):
        pass


class _FakeUtils:
    TQDMIOWriter = _Pass


class _FakeOS:
    @staticmethod
    def truncate(path, size):
        pass


_FREE = ['self', 'loop', 'rate_limiter', 'download_chunk_size', 'writer', 'files_digests', 'files_metadata', 'files_sizes',
         'glock', 'finished_tracker', '_write_chunk_ref']
_MK_DL = lift.lift_closure('replicat.repository', 'restore', '_download_chunk', _FREE,
                           overrides={'io': _FakeIO, 'utils': _FakeUtils, 'memoryview': (lambda x: x), 'logger': rt.Nop(), 'os': _FakeOS})


class _Self(RealFallback):
    _quiet = True

    def __init__(self, props, stored):
        self.props = props
        self.stored = stored
        self.meta = []

    @contextlib.contextmanager
    def _acquire_slot_threadsafe(self, *, loop):
        yield 2

    def _chunk_digest_to_location(self, d):
        return 'data/xx/yy/zz-nn'

    def _maybe_run_coroutine_threadsafe(self, func, location, stream, chunk_size, *, loop):
        stream.write(self.stored)

    class backend:
        download_stream = None

    def restore_metadata(self, p, m):
        self.meta.append(p)


ORIG = b'abcd'


def d1_chunk(stored: bytes, encrypted: bool) -> bool:
    """Whatever bytes sit at the chunk's location, restore either raises or writes exactly the original plaintext.
    pre: len(stored) <= 7
    post: _
    raises: ReplicatError, DecryptionError
    """
    props = rt.ideal_props(encrypted)
    me = _Self(props, stored)
    written = []

    def write_ref(ref, contents):
        written.append(bytes(contents[ref[3]: ref[3] + ref[1]]))
    digest = b'H' + ORIG
    files_digests = {'F': {digest}}
    files_metadata = {'F': ('/x/F', {})}
    dl = _MK_DL(me, None, None, 5, rt.InlineExecutor(), files_digests, files_metadata, {'F': 4}, threading.Lock(), rt.Nop(), write_ref)
    dl(digest, [('F', 4, 0, 0)])
    with NoTracing():
        tick('d1', None)
    return written == [ORIG] and me.meta == ['/x/F']


def d1_valid_other(other: bytes, encrypted: bool) -> bool:
    """Swap/replay: the stored object is a *valid* object of the same repository for another plaintext: never written.
    pre: 1 <= len(other) <= 4 and other != ORIG
    post: _
    raises: ReplicatError, DecryptionError
    """
    props = rt.ideal_props(encrypted)
    od = props.hash_digest(other)
    stored = props.encrypt(other, props.derive_shared_subkey(od)) if encrypted else other
    me = _Self(props, stored)
    written = []

    def write_ref(ref, contents):
        written.append(bytes(contents[ref[3]: ref[3] + ref[1]]))
    digest = b'H' + ORIG
    dl = _MK_DL(me, None, None, 5, rt.InlineExecutor(), {'F': {digest}}, {'F': ('/x/F', {})}, {'F': 4}, threading.Lock(), rt.Nop(), write_ref)
    dl(digest, [('F', 4, 0, 0)])
    with NoTracing():
        tick('d1o', None)
    return False  # unreachable unless a wrong chunk was accepted: every path must raise


# =========================================================================== D2: snapshot bytes vs name
def d2_snapshot(stored: bytes) -> bool:
    """Downloaded snapshot bytes that do not hash to the name are rejected (no cache involved).
    pre: len(stored) <= 3 or stored == c18.ORIG
    post: _
    """
    repo = c18._mk(None, stored, use_cache=False)
    try:
        body = repo._download_snapshot_threadsafe(c18.PATH, c18.EXPECTED, loop=None)
    except ReplicatError:
        with NoTracing():
            tick('d2', 'raised')
        return stored != c18.ORIG
    with NoTracing():
        tick('d2', 'ok')
    return stored == c18.ORIG and body == c18.BODY


# =========================================================================== D3: tag filter in _load_snapshots
_MK_DS = lift.lift_closure('replicat.repository', '_load_snapshots', '_download_snapshot', ['self', 'snapshot_re', 'loop'],
                           overrides={'logger': rt.Nop()})


class _D3Self(RealFallback):
    parse_snapshot_location = Repository.parse_snapshot_location
    SNAPSHOT_PREFIX = Repository.SNAPSHOT_PREFIX

    def __init__(self):
        self.props = rt.ideal_props(True, mackey=b'0')
        self.calls = []

    def _download_snapshot_threadsafe(self, path, digest, *, loop):
        self.calls.append((path, digest))
        return 'BODY'

    def __getattr__(self, name):
        # any other helper the lifted statements call on `self` is the real one
        import types
        attr = getattr(Repository, name)
        return types.MethodType(attr, self) if callable(attr) else attr


def d3_tag(name: str, tag: str) -> bool:
    """A listed snapshot object is only loaded if its tag is the MAC of the digest in its name, and the digest handed
    to the verifier is the one parsed from the name.
    pre: len(name) == 2 and len(tag) in (4, 6) and all(c in '0123456789abcdef' for c in name + tag)
    post: _
    raises: ValueError
    """
    me = _D3Self()
    path = Repository.get_snapshot_location(me, name=name, tag=tag)
    res = _MK_DS(me, None, None)(path)
    digest = bytes.fromhex(name)
    good = tag == (b'M0' + digest).hex()
    with NoTracing():
        tick('d3', None)
    if good:
        return res == 'BODY' and me.calls == [(path, digest)]
    return res is None and me.calls == []


# =========================================================================== E: corrupt a real repository
_BASE = {}


def _base(encrypted):
    """A repository with two snapshots by A of the same path (two versions) + one by B; built once per process."""
    if encrypted in _BASE:
        return _BASE[encrypted]
    d = Path(world.tempfile.mkdtemp(prefix='c04base', dir=str(world.WORK)))
    h = hist.History(d, encrypted=encrypted)
    src = d / 'data'
    src.mkdir()
    v1 = bytes(range(40, 64)) + b'#' * 9
    v2 = bytes(range(40, 56)) + b'CHANGED!' + b'#' * 9 + b'tail'
    (src / 'f.bin').write_bytes(v1)
    (src / 'g.bin').write_bytes(b'G' * 13)
    h.snapshot_paths('A', [src])
    (src / 'f.bin').write_bytes(v2)
    h.snapshot_paths('A', [src])
    expect = {str((src / 'f.bin').resolve()): v2, str((src / 'g.bin').resolve()): b'G' * 13}
    world.shutil.rmtree(d, ignore_errors=True)
    newest = h.snaps[-1]['name']
    _BASE[encrypted] = (h.U, dict(h.be.objs), expect, newest)
    return _BASE[encrypted]


KINDS = ['flip', 'truncate', 'extend', 'swap', 'replay', 'delete', 'move']


def corrupt_case(encrypted, obj_i, kind, p, use_cache=True):
    U, objs, expect, newest = _base(encrypted)
    rt.determinism(13)
    objs = dict(objs)
    names = sorted(k for k in objs if k != 'config')
    name = names[obj_i % len(names)]
    data = objs[name]
    other = names[(obj_i + 1 + p) % len(names)]
    if kind == 'flip':
        off = (p * len(data)) // 40 if len(data) else 0
        b = bytearray(data)
        if not b:
            return True, 'empty object'
        b[min(off, len(b) - 1)] ^= 1 << (p % 8)
        objs[name] = bytes(b)
    elif kind == 'truncate':
        objs[name] = data[:(p * len(data)) // 40]
    elif kind == 'extend':
        objs[name] = data + bytes([p]) * (1 + p % 3)
    elif kind == 'swap':
        objs[name], objs[other] = objs[other], objs[name]
    elif kind == 'replay':
        objs[name] = objs[other]
    elif kind == 'delete':
        del objs[name]
    elif kind == 'move':
        # replay under another name AND removal (two damages in combination): same file name in another prefix directory,
        # or the tag part respelled in upper case
        head, _, last = name.rpartition('/')
        top, _, sub = head.rpartition('/')
        new = (top + '/' + ('ff' if sub != 'ff' else 'ee') + '/' + last) if p % 2 == 0 else (head + '/' + last.upper() if last.upper() != last else head + '/x' + last)
        objs[new] = objs.pop(name)
    with world.scratch('c04') as d:
        be = rt.MemBackend(objs)
        cache = str(d / 'cache') if use_cache else None
        outcomes = []
        for attempt in range(2):
            r = fresh_repo(U, 'A', be, cache_directory=cache)
            out = d / f'out{attempt}'
            try:
                rt.MiniLoop().run_until_complete(r.restore(path=out, snapshot_regex='^' + newest + '$'))
            except Exception as e:
                outcomes.append(('raised', type(e).__name__))
                continue
            got = {'/' + k: v[0] for k, v in world.tree_state(out).items()}
            if kind in ('delete', 'move') and name.startswith('snapshots/') and name.endswith('-' + newest) and got == {}:
                outcomes.append(('nothing listed',))   # the snapshot object itself is gone: nothing to restore
                continue
            if got != expect:
                return False, f'{kind} of {name} (p={p}): restore #{attempt + 1} reported success but wrote {got} instead of {expect}'
            outcomes.append(('ok',))
        return True, str(outcomes)


def e_corrupt(k: int) -> bool:
    """
    pre: shard(2 * 16 * 7 * 40)[0] <= k < shard(2 * 16 * 7 * 40)[1]
    post: _
    """
    enc, obj_i, kind, p = digits(k, [2, 16, 7, 40])
    with NoTracing():
        if KINDS[kind] in ('delete',) and p > 0:
            return True
        if KINDS[kind] == 'move' and p > 1:
            return True
        if KINDS[kind] in ('swap', 'replay', 'extend') and p > 7:
            return True
        ok, msg = corrupt_case(bool(enc), obj_i, KINDS[kind], p)
        tick('e_corrupt', [enc, obj_i, KINDS[kind], p, msg[:40]])
        if not ok:
            _say(msg)
        return ok


# --------------------------------------------------------------------------- large restores (more chunks than any batching window; C04_d)
_BIGBASE = {}
BIG_N = [6500, 15000]        # bytes; with 4..8-byte chunks about 1100 and 2500 chunk references in one file


def _base_big(encrypted, ni):
    key = (encrypted, ni)
    if key in _BIGBASE:
        return _BIGBASE[key]
    import random
    d = Path(world.tempfile.mkdtemp(prefix='c04big', dir=str(world.WORK)))
    h = hist.History(d, encrypted=encrypted)
    src = d / 'data'
    src.mkdir()
    body = random.Random(ni).randbytes(BIG_N[ni])
    (src / 'big.bin').write_bytes(body)
    res = h.snapshot_paths('A', [src])
    f = res.data['files'][0]
    order = [h.repos['A']._chunk_digest_to_location(res.chunks[c['index']]) for c in sorted(f['chunks'], key=lambda c: c['counter'])]
    expect = {str((src / 'big.bin').resolve()): body}
    world.shutil.rmtree(d, ignore_errors=True)
    _BIGBASE[key] = (h.U, dict(h.be.objs), expect, order)
    return _BIGBASE[key]


BIG_KINDS = ['flip', 'truncate', 'swap', 'delete', 'flip+swap', 'replay']


def big_corrupt_case(encrypted, ni, pos_i, kind, conc):
    U, objs, expect, order = _base_big(encrypted, ni)
    rt.determinism(13)
    objs = dict(objs)
    n = len(order)
    # position of the damaged reference in the file: first, early, just past 1000, middle, last but ~1000, last
    q = [0, 7, min(1001, n - 1), n // 2, max(n - 1003, 0), n - 1][pos_i]
    name = order[q]
    other = next(o for o in order[(q + 501) % n:] + order if o != name and objs[o] != objs[name])

    def flip(nm):
        b = bytearray(objs[nm])
        b[len(b) // 2] ^= 0x10
        objs[nm] = bytes(b)
    if kind == 'flip':
        flip(name)
    elif kind == 'truncate':
        objs[name] = objs[name][:-1]
    elif kind == 'swap':
        objs[name], objs[other] = objs[other], objs[name]
    elif kind == 'delete':
        del objs[name]
    elif kind == 'replay':
        objs[name] = objs[other]
    else:
        flip(name)
        third = order[(q + 1200) % n]
        if third not in (name, other):
            objs[third], objs[other] = objs[other], objs[third]
    with world.scratch('c04b') as d:
        be = rt.MemBackend(objs)
        r = fresh_repo(U, 'A', be, concurrent=conc)
        out = d / 'out'
        try:
            rt.MiniLoop(budget=4_000_000).run_until_complete(r.restore(path=out))
        except Exception as e:
            return True, 'raised ' + type(e).__name__
        got = {'/' + k: v[0] for k, v in world.tree_state(out).items()}
        if got != expect:
            g = next(iter(got.values()), b'')
            w = next(iter(expect.values()))
            nd = sum(1 for a, b in zip(g, w) if a != b) + abs(len(g) - len(w))
            return False, (f'{kind} of the chunk object behind reference {q} of {n}: restore reported success but the file differs from the original '
                           f'in {nd} byte(s)')
        return True, 'ok'


def e_big_corrupt(k: int) -> bool:
    """
    pre: shard(2 * 2 * 6 * 6 * 2)[0] <= k < shard(2 * 2 * 6 * 6 * 2)[1]
    post: _
    """
    enc, ni, pos_i, kind, ci = digits(k, [2, 2, 6, 6, 2])
    with NoTracing():
        ok, msg = big_corrupt_case(bool(enc), ni, pos_i, BIG_KINDS[kind], [2, 5][ci])
        tick('e_big_corrupt', [enc, ni, pos_i, kind, ci, msg[:12]])
        if not ok:
            _say(msg)
        return ok
