"""C17 - accepted settings always yield a usable repository and working keys."""
from __future__ import annotations

import copy
import os

from crosshair.tracers import NoTracing

from vt import rt, world
from vt.core import digits, shard, tick

R = rt.patch_repository_for_miniloop()
from replicat.repository import Repository  # noqa: E402
from replicat import exceptions  # noqa: E402
import replicat.utils.adapters as A  # noqa: E402

REPLAY = bool(os.environ.get('VT_REPLAY'))


def _say(*a):
    if REPLAY:
        print('DETAIL:', *a)


ABSENT = object()
HASHING = [
    ABSENT, {}, {'name': 'blake2b'}, {'name': 'blake2b', 'length': 16}, {'name': 'blake2b', 'length': 64}, {'name': 'blake2b', 'length': 1},
    {'name': 'blake2b', 'length': 0}, {'name': 'blake2b', 'length': 65}, {'name': 'blake2b', 'length': -1}, {'name': 'blake2b', 'length': '32'},
    {'name': 'blake2b', 'length': 16.0}, {'name': 'sha2'}, {'name': 'sha2', 'bits': 224}, {'name': 'sha2', 'bits': 255}, {'name': 'sha2', 'bits': '256'},
    {'name': 'sha3', 'bits': 384}, {'name': 'sha3', 'bits': 0}, {'name': 'md5'}, {'name': 'aes_gcm'}, {'name': 'scrypt', 'length': 8},
    {'name': 'gclmulchunker'}, {'name': 'sha2', 'bits': 256, 'salt': 'x'}, {'bits': 256}, {'name': 'blake2b', 'length': True}, {'name': 'sha2', 'bits': None},
]
CHUNKING = [
    ABSENT, {'min_length': 4, 'max_length': 8}, {'min_length': 1, 'max_length': 1}, {'min_length': 1, 'max_length': 3}, {'min_length': 5, 'max_length': 10},
    {'min_length': 8, 'max_length': 4}, {'min_length': 0, 'max_length': 0}, {'min_length': 0, 'max_length': 8}, {'min_length': -4, 'max_length': 8},
    {'min_length': 4.0, 'max_length': 8}, {'min_length': 4, 'max_length': 8.5}, {'min_length': '4', 'max_length': 8}, {'max_length': 12}, {'min_length': 16},
    {'name': 'gclmulchunker', 'min_length': 6, 'max_length': 7}, {'name': 'blake2b'}, {'name': 'fastcdc'}, {'min_length': 4, 'max_length': 8, 'window': 3},
    {'min_length': None, 'max_length': 8}, {'min_length': True, 'max_length': True},
]
CIPHER = [
    ABSENT, {}, {'name': 'aes_gcm', 'key_bits': 128}, {'name': 'aes_gcm', 'key_bits': 192}, {'name': 'aes_gcm', 'key_bits': 100}, {'name': 'aes_gcm', 'key_bits': '256'},
    {'name': 'aes_gcm', 'nonce_bits': 64}, {'name': 'aes_gcm', 'nonce_bits': 8}, {'name': 'aes_gcm', 'nonce_bits': 0}, {'name': 'aes_gcm', 'nonce_bits': 1024},
    {'name': 'aes_gcm', 'nonce_bits': 100}, {'name': 'aes_gcm', 'nonce_bits': '96'}, {'name': 'chacha20_poly1305'}, {'name': 'chacha20_poly1305', 'key_bits': 128},
    {'name': 'sha2'}, {'name': 'rot13'}, {'name': 'aes_gcm', 'nonce_bits': -8}, {'name': 'aes_gcm', 'nonce_bits': 96.0},
]
KDF = [
    {'name': 'scrypt', 'n': 4, 'r': 1, 'p': 1}, {'name': 'scrypt', 'n': 8, 'r': 2, 'p': 1}, {'name': 'scrypt', 'n': 3, 'r': 1, 'p': 1}, {'name': 'scrypt', 'n': 0},
    {'name': 'scrypt', 'n': 4, 'r': 0, 'p': 1}, {'name': 'scrypt', 'n': '4', 'r': 1, 'p': 1}, {'name': 'blake2b'}, {'name': 'blake2b', 'length': 16}, {'name': 'aes_gcm'},
    {'name': 'argon2'}, {'name': 'scrypt', 'n': 4, 'r': 1, 'p': 1, 'salt': 'x'}, {'name': 'scrypt', 'n': 4, 'r': 1, 'p': 0}, {'name': 'sha2'},
]
ENC_MODE = ['encrypted', 'none', 'bad-type', 'unknown-key']

FILES = {'a.bin': bytes(range(37)), 'b.bin': b'', 'c.bin': b'0123456789', 'd.bin': bytes(100)}


def _settings(hi, ci, ei, xi, ki):
    s = {}
    if HASHING[hi] is not ABSENT:
        s['hashing'] = copy.deepcopy(HASHING[hi])
    if CHUNKING[ci] is not ABSENT:
        s['chunking'] = copy.deepcopy(CHUNKING[ci])
    else:
        s['chunking'] = {'min_length': 4, 'max_length': 8}
    mode = ENC_MODE[ei]
    if mode == 'none':
        s['encryption'] = None
    elif mode == 'bad-type':
        s['encryption'] = 'aes'
    else:
        enc = {'kdf': copy.deepcopy(KDF[ki])}
        if CIPHER[xi] is not ABSENT:
            enc['cipher'] = copy.deepcopy(CIPHER[xi])
        if mode == 'unknown-key':
            enc['mac'] = {'name': 'blake2b'}
        s['encryption'] = enc
    return s


PASSWORDS = [b'pw', b'', b'\xff' * 70]


def settings_case(settings, top_extra=False, password=b'pw'):
    """init(settings): either rejected with the backend untouched, or a fresh process can unlock, back up and restore."""
    if top_extra:
        settings = dict(settings, compression={'name': 'zstd'})
    rt.determinism(19)
    be = rt.MemBackend()
    repo = Repository(be, concurrent=2, cache_directory=None)
    shown = repr(settings)[:200]
    try:
        with rt.silence():
            res = rt.MiniLoop().run_until_complete(repo.init(password=password, settings=copy.deepcopy(settings)))
    except Exception as e:
        if be.objs:
            return False, f'init rejected {shown} with {e!r} but wrote {sorted(be.objs)}'
        return True, 'rejected'
    # accepted: everything from here on must work, using only what init stored / returned
    with world.scratch('c17') as d:
        src = d / 'src'
        src.mkdir()
        for n, b in FILES.items():
            (src / n).write_bytes(b)
        try:
            r2 = Repository(be, concurrent=2, cache_directory=None)
            rt.MiniLoop().run_until_complete(r2.unlock(password=password, key=res.key))
            rt.MiniLoop().run_until_complete(r2.snapshot(paths=[src]))
            r3 = Repository(be, concurrent=2, cache_directory=None)
            rt.MiniLoop().run_until_complete(r3.unlock(password=password, key=res.key))
            rt.MiniLoop().run_until_complete(r3.restore(path=d / 'out'))
        except Exception as e:
            return False, f'init accepted {shown} but the repository is unusable: {e!r}'
        got = {k.rsplit('/', 1)[1]: v[0] for k, v in world.tree_state(d / 'out').items()}
        if got != FILES:
            return False, f'init accepted {shown} but the round trip differs: {sorted((k, len(v)) for k, v in got.items())}'
        if res.key is not None:
            try:
                r4 = Repository(be, concurrent=2, cache_directory=None)
                rt.MiniLoop().run_until_complete(r4.unlock(password=b'wrong', key=res.key))
                return False, 'wrong password unlocked the repository'
            except Exception:
                pass
    return True, 'accepted'


def e_settings_hc(k: int) -> bool:
    """hashing x chunking (x encrypted/unencrypted, default cipher, fast kdf).
    pre: shard(25 * 20 * 2)[0] <= k < shard(25 * 20 * 2)[1]
    post: _
    """
    hi, ci, ei = digits(k, [25, 20, 2])
    with NoTracing():
        ok, msg = settings_case(_settings(hi, ci, ei, 0, 0))
        tick('e_settings_hc', [hi, ci, ei, msg[:10]])
        if not ok:
            _say(msg)
        return ok


def e_settings_enc(k: int) -> bool:
    """cipher x kdf x encryption mode (x two hashing/chunking baselines, x unknown top-level key).
    pre: shard(18 * 13 * 4 * 2)[0] <= k < shard(18 * 13 * 4 * 2)[1]
    post: _
    """
    xi, ki, ei, base = digits(k, [18, 13, 4, 2])
    with NoTracing():
        ok, msg = settings_case(_settings([0, 11][base], [1, 4][base], ei, xi, ki), top_extra=(xi + ki) % 7 == 0 and base == 1,
                                password=PASSWORDS[(xi + ki + ei) % 3])
        tick('e_settings_enc', [xi, ki, ei, base, msg[:10]])
        if not ok:
            _say(msg)
        return ok


# ----------------------------------------------------------------------------- add-key chains
AK_KDF = [None, {'name': 'scrypt', 'n': 4, 'r': 1, 'p': 1}, {'name': 'scrypt', 'n': 8, 'r': 2, 'p': 1}, {'name': 'blake2b'}, {'name': 'scrypt', 'n': 3},
          {'name': 'aes_gcm'}, {'name': 'scrypt', 'n': 4, 'r': 1, 'p': 1, 'length': 5}]


def _akpw(j):
    """Password of the j-th added key: the second key has the EMPTY password (accepted by add-key, so it has to work)."""
    return b'' if j == 2 else b'p%d' % j


def addkey_case(steps, cipher_i):
    """steps: list of (shared, kdf index, issued_by index). Every produced key unlocks with its own password and no other;
    rejected add-key calls write nothing."""
    rt.determinism(23)
    be = rt.MemBackend()
    repo = Repository(be, concurrent=2, cache_directory=None)
    ciph = [None, {'name': 'chacha20_poly1305'}, {'name': 'aes_gcm', 'key_bits': 128}][cipher_i]
    with rt.silence():
        init = rt.MiniLoop().run_until_complete(repo.init(password=b'p0', settings=rt.fast_settings(True, cipher=ciph)))
    keys = [(init.key, b'p0')]
    for j, (shared, ki, by) in enumerate(steps):
        issuer = Repository(be, concurrent=2, cache_directory=None)
        k_by, p_by = keys[by % len(keys)]
        rt.MiniLoop().run_until_complete(issuer.unlock(password=p_by, key=k_by))
        before = dict(be.objs)
        st = None if AK_KDF[ki] is None else {'encryption': {'kdf': dict(AK_KDF[ki])}}
        if AK_KDF[ki] is None and not rt.FAST_KDF:
            pass
        try:
            with rt.silence():
                if st is None:
                    st = {'encryption': {'kdf': dict(rt.FAST_KDF)}}
                res = rt.MiniLoop().run_until_complete(issuer.add_key(password=_akpw(j + 1), settings=st, shared=bool(shared)))
        except Exception as e:
            if be.objs != before:
                return False, f'add_key rejected ({e!r}) but changed the backend'
            continue
        if be.objs != before:
            return False, 'add_key changed the backend'
        keys.append((res.new_key, _akpw(j + 1)))
    for i, (key, pw) in enumerate(keys):
        for j2, (_, pw2) in enumerate(keys):
            r = Repository(be, concurrent=2, cache_directory=None)
            try:
                rt.MiniLoop().run_until_complete(r.unlock(password=pw2, key=key))
                opened = True
            except Exception:
                opened = False
            if opened != (pw2 == pw):
                return False, f'key #{i} with password of key #{j2}: unlocked={opened}'
    # every key can actually back up and restore
    with world.scratch('c17k') as d:
        src = d / 'src'
        src.mkdir()
        (src / 'f.bin').write_bytes(b'key check payload')
        for i, (key, pw) in enumerate(keys):
            try:
                r = Repository(be, concurrent=2, cache_directory=None)
                rt.MiniLoop().run_until_complete(r.unlock(password=pw, key=key))
                snap = rt.MiniLoop().run_until_complete(r.snapshot(paths=[src]))
                r2 = Repository(be, concurrent=2, cache_directory=None)
                rt.MiniLoop().run_until_complete(r2.unlock(password=pw, key=key))
                rt.MiniLoop().run_until_complete(r2.restore(snapshot_regex='^' + snap.name + '$', path=d / f'o{i}'))
            except Exception as e:
                return False, f'key #{i} cannot back up/restore: {e!r}'
            got = [v[0] for v in world.tree_state(d / f'o{i}').values()]
            if got != [b'key check payload']:
                return False, f'key #{i}: round trip differs'
    return True, ''


def e_addkey(k: int) -> bool:
    """
    pre: shard(2 * 7 * 2 * 7 * 2 * 3)[0] <= k < shard(2 * 7 * 2 * 7 * 2 * 3)[1]
    post: _
    """
    s1, k1, s2, k2, by2, ci = digits(k, [2, 7, 2, 7, 2, 3])
    with NoTracing():
        ok, msg = addkey_case([(s1, k1, 0), (s2, k2, by2), (1 - s1, 1, 2)], ci)
        tick('e_addkey', [s1, k1, s2, k2, by2, ci])
        if not ok:
            _say(msg)
        return ok


# ----------------------------------------------------------------------------- constructor acceptance (CrossHair, symbolic ints)
def _lift_ctor(clsname):
    """The class's __init__ from the current source with f-strings replaced by constants (error-message formatting of
    symbolic integers is not the subject and explodes the path count)."""
    import ast
    import inspect
    src = inspect.getsource(A)
    tree = ast.parse(src)
    cls = [n for n in tree.body if isinstance(n, ast.ClassDef) and n.name == clsname][0]
    fn = [n for n in cls.body if isinstance(n, ast.FunctionDef) and n.name == '__init__'][0]

    class NoFmt(ast.NodeTransformer):
        def visit_JoinedStr(self, node):
            return ast.Constant('message')
    fn = NoFmt().visit(fn)
    m = ast.Module(body=[fn], type_ignores=[])
    ast.fix_missing_locations(m)
    ns = dict(A.__dict__)
    ns.update({k: v for k, v in vars(getattr(A, clsname)).items() if not k.startswith('__')})
    exec(compile(m, f'<lifted {clsname}.__init__>', 'exec'), ns)
    return ns['__init__']


class _Obj:
    alignment = 4


_CHUNKER_INIT = _lift_ctor('gclmulchunker')


def s_chunker_ctor(mn: int, mx: int) -> bool:
    """gclmulchunker(min, max) accepts exactly 1 <= min <= max for integers.
    pre: True
    post: _
    """
    try:
        _CHUNKER_INIT(_Obj(), min_length=mn, max_length=mx)
        accepted = True
    except ValueError:
        accepted = False
    with NoTracing():
        tick('s_ctor', None)
    return accepted == (1 <= mn <= mx)


def s_blake_ctor(n: int) -> bool:
    """blake2b(length) accepts exactly 1..64.
    pre: True
    post: _
    """
    try:
        A.blake2b(length=n)
        accepted = True
    except ValueError:
        accepted = False
    with NoTracing():
        tick('s_blake', None)
    return accepted == (1 <= n <= 64)


# ----------------------------------------------------------------------------- CLI: every way of giving a password agrees
CLI_PW = [b'secret', b'secret\n', b'secret\r\n', b' lead and trail ', b'', b'\xff\xfe', b'two\nlines\n', b'tab\t']


def e_cli_password(k: int) -> bool:
    """The password a key is created with through `add-key -N FILE` (or -n STRING) is byte for byte the password a later
    command reads from the same file with `-P FILE` (or -p STRING): otherwise the new key can never unlock.
    pre: 0 <= k < 8 * 3
    post: _
    """
    ci, cmd = digits(k, [8, 3])
    with NoTracing():
        from replicat.utils import cli
        with world.scratch('c17cli') as d:
            f = d / 'pw.txt'
            f.write_bytes(CLI_PW[ci])
            parser = cli.make_main_parser(cli.initial_parser, cli.common_options_parser)
            other = ['snapshot', 'list-snapshots', 'restore'][cmd]
            tail = {'snapshot': [str(d)], 'list-snapshots': [], 'restore': [str(d)]}[other]
            try:
                a = parser.parse_args(['add-key', '-r', 'loc', '-P', str(f), '-N', str(f)])
                b = parser.parse_args([other, '-r', 'loc', '-P', str(f)] + tail)
            except SystemExit:
                tick('e_cli_password', [ci, cmd, 'usage-error'])
                return False
            ok = a.new_password == b.password == a.password
            if ok and b'\n' not in CLI_PW[ci] and b'\r' not in CLI_PW[ci] and CLI_PW[ci] and not CLI_PW[ci].startswith(b'\xff'):
                s = os.fsdecode(CLI_PW[ci])
                c = parser.parse_args(['add-key', '-r', 'loc', '-p', s, '-n', s])
                ok = c.password == c.new_password
            tick('e_cli_password', [ci, cmd])
            return ok


# --------------------------------------------------------------------------- key files written over whatever was at the path (C17_e)
KF_KDF = [{'name': 'scrypt', 'n': 4, 'r': 1, 'p': 1}, {'name': 'scrypt', 'n': 1024, 'r': 2, 'p': 1}, {'name': 'blake2b'}]
KF_PRE = ['absent', 'empty', 'short junk', 'long junk', 'previous key (longer kdf section)', 'previous key (same settings)']


def keyfile_case(op, pre_i, kdf_i):
    """init / add-key (shared, independent) with `key_output_path` naming a path in any previous state: the file then holds
    exactly the new key, and a fresh process given the file's bytes (as -K does) unlocks with the new password."""
    rt.determinism(31)
    be = rt.MemBackend()
    with world.scratch('c17f') as d:
        path = d / 'keys' / 'my.key'
        path.parent.mkdir()
        repo = Repository(be, concurrent=2, cache_directory=None)
        kdf = dict(KF_KDF[kdf_i])
        pre = KF_PRE[pre_i]
        first_path = path if op == 0 else d / 'keys' / 'first.key'

        def prefill(target):
            if pre == 'empty':
                target.write_bytes(b'')
            elif pre == 'short junk':
                target.write_bytes(b'{}')
            elif pre == 'long junk':
                target.write_bytes(b'x' * 5000)
            elif pre.startswith('previous key'):
                other = Repository(rt.MemBackend(), concurrent=2, cache_directory=None)
                big = {'name': 'scrypt', 'n': 1048576, 'r': 8, 'p': 16} if 'longer' in pre else kdf
                with rt.silence():
                    # (only the serialised form matters: built with the documented layout by a throw-away repository)
                    try:
                        rt.MiniLoop().run_until_complete(other.init(password=b'old', settings={'encryption': {'kdf': dict(rt.FAST_KDF)}, 'chunking': {'min_length': 4, 'max_length': 8}},
                                                                   key_output_path=target))
                    except Exception:
                        target.write_bytes(b'{"kdf": 1}')
                if 'longer' in pre:
                    target.write_bytes(target.read_bytes() + b' ' * 64 + b'\n')      # a valid key file with trailing white space is longer than any new key
        if op == 0:
            prefill(path)
        with rt.silence():
            init = rt.MiniLoop().run_until_complete(repo.init(password=b'p0', settings=rt.fast_settings(True) | {'encryption': {'kdf': kdf}}, key_output_path=first_path))
        if op == 0:
            new_key, pw = init.key, b'p0'
        else:
            prefill(path)
            issuer = Repository(be, concurrent=2, cache_directory=None)
            rt.MiniLoop().run_until_complete(issuer.unlock(password=b'p0', key=first_path.read_bytes()))
            with rt.silence():
                res = rt.MiniLoop().run_until_complete(issuer.add_key(password=b'p-new', settings={'encryption': {'kdf': kdf}}, shared=(op == 1), key_output_path=path))
            new_key, pw = res.new_key, b'p-new'
        stored = path.read_bytes()
        fresh = Repository(be, concurrent=2, cache_directory=None)
        try:
            rt.MiniLoop().run_until_complete(fresh.unlock(password=pw, key=stored))
        except Exception as e:
            return False, (f"{['init', 'add-key --shared', 'add-key'][op]} wrote its key to a path holding {pre!r}: a fresh process cannot unlock with the file "
                           f'({type(e).__name__}: {str(e)[:80]}); file has {len(stored)} bytes, the key serialises to {len(repo.serialize(new_key))}')
        if stored != repo.serialize(new_key):
            return False, 'key file differs from the key the command returned'
        others = sorted(p.name for p in path.parent.iterdir())
        if others != sorted({path.name, first_path.name}):
            return False, f'unexpected files next to the key: {others}'
        return True, ''


def e_keyfile(k: int) -> bool:
    """
    pre: 0 <= k < 3 * 6 * 3
    post: _
    """
    op, pre_i, kdf_i = digits(k, [3, 6, 3])
    with NoTracing():
        ok, msg = keyfile_case(op, pre_i, kdf_i)
        tick('e_keyfile', [op, pre_i, kdf_i])
        if not ok:
            _say(msg)
        return ok
