"""C14 - what replicat writes follows the documented format (both directions against vt/ref_format.py)."""
from __future__ import annotations

import os
import queue as _queue
import threading

from crosshair.tracers import NoTracing

from vt import lift, ref_format as RF, rt, world
from vt.lift import RealFallback
from vt.core import digits, shard, tick
from vt.harness import hist
from vt.harness.gc import R, Repository, exceptions, fresh_repo

import replicat.utils as U

REPLAY = bool(os.environ.get('VT_REPLAY'))


def _say(*a):
    if REPLAY:
        print('DETAIL:', *a)


# =========================================================================== X1: what the producer queues for one chunk
_MK_PRODUCER = lift.lift_closure('replicat.repository', 'snapshot', '_chunk_producer',
                                 ['self', 'state', 'chunks_table', 'chunk_queue', 'abort', '_stream_files'],
                                 overrides={'logger': rt.Nop(), 'logging': rt.Nop()})


class _X1Self(RealFallback):
    get_chunk_location = Repository.get_chunk_location
    _chunk_digest_to_location_parts = Repository._chunk_digest_to_location_parts
    _chunk_digest_to_location = Repository._chunk_digest_to_location
    CHUNK_PREFIX = Repository.CHUNK_PREFIX

    def __init__(self, props, pieces):
        self.props = _Props(props, pieces)


class _Props:
    def __init__(self, props, pieces):
        self._p, self._pieces = props, pieces

    def __getattr__(self, n):
        return getattr(self._p, n)

    def chunkify(self, it):
        return iter(self._pieces)


def x1_chunk_object(p1: bytes, same: bool, encrypted: bool) -> bool:
    """For chunk plaintexts p1, p2 the producer queues exactly Enc(KDF(shared, H(p)), p) at loc(MAC(H(p)), MAC(MAC(H(p))))
    (p at loc(H(p), H(p)) unencrypted), counters 1,2, contiguous stream ranges, one table index per distinct digest.
    pre: len(p1) == 1
    post: _
    """
    p2 = p1 if same else p1 + b'x'
    props = rt.ideal_props(encrypted, mackey=b'0')
    me = _X1Self(props, [p1, p2])
    state = R._SnapshotState()
    table = {}
    q = _queue.Queue()
    _MK_PRODUCER(me, state, table, q, threading.Event(), lambda: None)()
    got = []
    while not q.empty():
        got.append(q.get_nowait())
    ok = len(got) == 2
    pos = 0
    for i, (c, p) in enumerate(zip(got, [p1, p2])):
        d = b'H' + p
        if encrypted:
            want_contents = b'E' + (b'Kss|' + d) + p
            name, tag = (b'M0' + d).hex(), (b'M0M0' + d).hex()
        else:
            want_contents, name, tag = p, d.hex(), d.hex()
        loc = 'data/' + tag[:2] + '/' + tag[2:4] + '/' + tag[4:] + '-' + name
        if c.contents != want_contents or c.location != loc or c.counter != i + 1 or c.stream_start != pos or c.stream_end != pos + len(p):
            ok = False
        pos += len(p)
    if ok:
        if (got[0].index == got[1].index) != (p1 == p2) or got[0].index != 0 or list(table) != ([b'H' + p1] if p1 == p2 else [b'H' + p1, b'H' + p2]):
            ok = False
    with NoTracing():
        tick('x1', None)
    return ok


def j1_bytes_roundtrip(b: bytes) -> bool:
    """type_reverse(type_hint(b)) == b; serialised form is {"!b": standard base64}; other dicts pass through unchanged.
    pre: len(b) <= 1
    post: _
    """
    import base64
    h = U.type_hint(b)
    ok = set(h) == {'!b'} and U.type_reverse(h) == b and U.type_reverse({'x': 1, '!b': 'AA=='}) == {'x': 1, '!b': 'AA=='} and U.type_reverse({'a': 'b'}) == {'a': 'b'}
    with NoTracing():
        ok = ok and h['!b'] == base64.standard_b64encode(bytes(b)).decode()
        tick('j1', None)
    return ok


# =========================================================================== E: differential against the reference implementation
CFG = [
    dict(encrypted=False, hashing=None), dict(encrypted=True, cipher=None, hashing=None),
    dict(encrypted=True, cipher={'name': 'chacha20_poly1305'}, hashing={'name': 'sha2', 'bits': 256}),
    dict(encrypted=True, cipher={'name': 'aes_gcm', 'key_bits': 128}, hashing={'name': 'sha3', 'bits': 512}),
    dict(encrypted=False, hashing={'name': 'blake2b', 'length': 32}),
    dict(encrypted=True, cipher={'name': 'aes_gcm', 'key_bits': 192, 'nonce_bits': 128}, hashing={'name': 'blake2b', 'length': 20}),
]
TREES = [[0], [1], [5, 0], [8, 8], [17, 3, 40], [0, 0], [4, 9, 0, 33], [64]]


def replicat_writes_ref_reads(cfg_i, tree_i, chunking_i, conc, overlap=False):
    cfg = CFG[cfg_i]
    rt.determinism(29)
    with world.scratch('c14') as d:
        src = d / 'src'
        (src / 'sub').mkdir(parents=True)
        expect = {}
        for i, n in enumerate(TREES[tree_i]):
            p = src / ('sub' if i % 2 else '.') / f'f{i}-é.bin'
            data = world.content(i % 2, i, n)
            p.write_bytes(data)
            expect[str(p.resolve())] = data
        be = rt.MemBackend()
        repo = Repository(be, concurrent=conc, cache_directory=None)
        mn, mx = [(4, 8), (5, 10), (1, 4)][chunking_i]
        settings = rt.fast_settings(cfg['encrypted'], cipher=cfg.get('cipher'), hashing=cfg.get('hashing'), chunking={'min_length': mn, 'max_length': mx})
        with rt.silence():
            init = rt.MiniLoop().run_until_complete(repo.init(password=b'pw', settings=settings))
        paths = [src]
        if overlap:        # overlapping arguments: the directory, a sub-directory of it, and a file inside
            paths = [src, src / 'sub', sorted(src.glob('*.bin'))[0]]
        tick0 = rt._DetDatetime._tick
        snap = rt.MiniLoop().run_until_complete(repo.snapshot(paths=paths, note='nøte'))
        tick1 = rt._DetDatetime._tick
        key_json = repo.serialize(init.key) if init.key is not None else None
        try:
            ref = RF.Repo(be.objs['config'], key_json, b'pw')
            snaps = ref.read_snapshots(be.objs)
            if [s['name'] for s in snaps] != [snap.name]:
                return False, f'reference reader finds snapshots {[s["name"][:8] for s in snaps]}'
            if snaps[0]['data'].get('note') != 'nøte':
                return False, 'note differs'
            # `utc_timestamp` is the UTC time of the snapshot in str(datetime) form (the harness clock is the ground truth; local
            # time in this model is hours away from UTC)
            import datetime as _dtm
            raw = snaps[0]['data'].get('utc_timestamp')
            try:
                ts = _dtm.datetime.fromisoformat(raw)       # (what replicat's own readers use)
                if ts.tzinfo is not None:
                    ts = ts.astimezone(_dtm.timezone.utc).replace(tzinfo=None)
            except Exception:
                return False, f'utc_timestamp {raw!r} is not an ISO date-time'
            if not (rt._DetDatetime.true_utc(tick0) <= ts <= rt._DetDatetime.true_utc(tick1 + 1)):
                return False, f'utc_timestamp {raw!r} is not the UTC time of the snapshot ({rt._DetDatetime.true_utc(tick0)} .. {rt._DetDatetime.true_utc(tick1 + 1)})'
            files = ref.read_files(be.objs, snaps[0])
        except RF.FormatError as e:
            return False, f'reference reader rejects what replicat wrote: {e}'
        except Exception as e:
            return False, f'reference reader failed: {e!r}'
        if files != expect:
            return False, f'reference reader decodes different files: {sorted((k, len(v)) for k, v in files.items())}'
        # every stored name follows the scheme and nothing else was written
        names = {'config', RF.snapshot_location(*ref.snapshot_name_tag(bytes.fromhex(snap.name)))}
        for dg in snaps[0]['chunks']:
            names.add(RF.chunk_location(*ref.chunk_name_tag(dg)))
        if set(be.objs) != names:
            return False, f'objects outside the scheme: {sorted(set(be.objs) ^ names)[:3]}'
        for f in snaps[0]['data']['files']:
            md = f['metadata']
            if md['st_mtime_ns'] != os.stat(f['path']).st_mtime_ns or md['st_size'] != len(expect[f['path']]):
                return False, 'metadata differs from the file system'
        return True, ''


def ref_writes_replicat_restores(cfg_i, tree_i, legacy, chunk_i, json_style=0, mtime0=False):
    cfg = CFG[cfg_i]
    # (one name with non-ASCII characters: escaped or raw UTF-8 in the JSON depending on the writer's style)
    files = {(f'/orig/dir{i % 2}/f{i}.bin' if i != 1 else '/orig/dir1/f1-\u00e9\u4e2d.bin'): world.content(0, i, n) for i, n in enumerate(TREES[tree_i])}
    objs, key_json, expected = RF.write_repository(files, json_style=json_style, encrypted=cfg['encrypted'], cipher=cfg.get('cipher'), hashing=cfg.get('hashing'),
                                                   legacy_metadata=bool(legacy), chunk=[5, 8, 3][chunk_i],
                                                   **({'mtime_ns': 0} if mtime0 else {}))      # mtime0: the first file carries the epoch itself as its times
    with world.scratch('c14r') as d:
        be = rt.MemBackend(objs)
        repo = Repository(be, concurrent=2, cache_directory=None)
        try:
            rt.MiniLoop().run_until_complete(repo.unlock(password=b'refpw', key=key_json))
            res = rt.MiniLoop().run_until_complete(repo.restore(path=d / 'out'))
        except Exception as e:
            return False, f'replicat cannot restore a repository written by the reference writer: {e!r}'
        got = {'/' + k: v for k, v in world.tree_state(d / 'out').items()}
        want = {p: (b, mt) for p, (b, mt) in expected.items()}
        if got != want:
            diff = [(k, got.get(k, (None,))[0] == want.get(k, (None,))[0], got.get(k, (0, 0))[1], want.get(k, (0, 0))[1]) for k in set(got) | set(want) if got.get(k) != want.get(k)]
            return False, f'restore of a reference-written repository differs: {diff[:3]}'
        # listings work on it too (timestamps incl. the pre-1.3 variant)
        import contextlib
        import io
        buf = io.StringIO()
        with contextlib.redirect_stdout(buf):
            r2 = Repository(be, concurrent=2, cache_directory=None)
            rt.MiniLoop().run_until_complete(r2.unlock(password=b'refpw', key=key_json))
            rt.MiniLoop().run_until_complete(r2.list_files(header=False))
        rows = [[c.strip() for c in l.split('\t')] for l in buf.getvalue().splitlines() if l.strip()]
        if len(rows) != len(files):
            return False, 'list_files on a reference-written repository lists a different number of files'
        # the MTIME column shows the recorded modification time (UTC), for the modern and the pre-1.3 variant alike
        import datetime as _dtm
        for pth, (_, mt) in expected.items():
            shown = _dtm.datetime.fromtimestamp(mt // 10 ** 9, tz=_dtm.timezone.utc).replace(tzinfo=None).isoformat(sep=' ')
            row = [r for r in rows if pth in r]
            if len(row) != 1 or shown not in row[0]:
                return False, f'list_files shows {row[0] if row else None} for {pth}, recorded mtime {shown}'
        return True, ''


def e_write(k: int) -> bool:
    """
    pre: shard(6 * 8 * 3 * 2)[0] <= k < shard(6 * 8 * 3 * 2)[1]
    post: _
    """
    ci, ti, chi, conci = digits(k, [6, 8, 3, 2])
    with NoTracing():
        ok, msg = replicat_writes_ref_reads(ci, ti, chi, [1, 3][conci], overlap=(ci + ti + chi) % 2 == 1)
        tick('e_write', [ci, ti, chi, conci])
        if not ok:
            _say(ci, TREES[ti], chi, conci, msg)
        return ok


def e_read(k: int) -> bool:
    """
    pre: shard(6 * 8 * 2 * 3)[0] <= k < shard(6 * 8 * 2 * 3)[1]
    post: _
    """
    ci, ti, legacy, chi = digits(k, [6, 8, 2, 3])
    with NoTracing():
        style = (ci + ti + chi) % 2
        m0 = (ci + 2 * ti + chi) % 3 == 0
        ok, msg = ref_writes_replicat_restores(ci, ti, legacy, chi, style, m0)
        tick('e_read', [ci, ti, legacy, chi, style, m0])
        if not ok:
            _say(ci, TREES[ti], legacy, chi, msg)
        return ok
