"""LOC: storage-location builders and parsers are mutually inverse (symbolic hex strings), N0: names are a function of
(digest, MAC key), injective in the digest and disjoint between MAC keys (idealised MAC)."""
from __future__ import annotations

from crosshair.tracers import NoTracing

from replicat.repository import Repository

from vt import rt
from vt.core import tick

HEX = '0123456789abcdef'
_R = Repository.__new__(Repository)


def _hex(s):
    return all(c in HEX for c in s)


def loc_chunk(name: str, tag: str) -> bool:
    """
    pre: 1 <= len(name) <= 4 and 4 <= len(tag) <= 6 and _hex(name) and _hex(tag)
    post: _
    """
    loc = _R.get_chunk_location(name=name, tag=tag)
    parts = _R.parse_chunk_location(loc)
    with NoTracing():
        tick('loc_chunk', None)
    return parts.name == name and parts.tag == tag and loc.startswith('data/') and loc.count('/') == 3 \
        and loc.rpartition('/')[2] == tag[4:] + '-' + name


def loc_snapshot(name: str, tag: str) -> bool:
    """
    pre: 1 <= len(name) <= 4 and 2 <= len(tag) <= 6 and _hex(name) and _hex(tag)
    post: _
    """
    loc = _R.get_snapshot_location(name=name, tag=tag)
    parts = _R.parse_snapshot_location(loc)
    with NoTracing():
        tick('loc_snapshot', None)
    return parts.name == name and parts.tag == tag and loc.startswith('snapshots/') and loc.count('/') == 2


def loc_lengths(ln: int, lt: int) -> bool:
    """Last path component fits NAME_MAX (255 bytes; the snapshot file name is exactly 255 for 128-character name and tag) for hex names/tags up to 128 characters (length arithmetic on the
    real builders with concrete strings of symbolic... realised lengths).
    pre: 1 <= ln <= 128 and 4 <= lt <= 128 and lt % 4 == 0 and (ln % 8 == 0 or ln < 4)
    post: _
    """
    from crosshair.core import realize
    ln = realize(ln)
    lt = realize(lt)
    with NoTracing():
        name, tag = 'a' * ln, 'b' * lt
        c = _R.get_chunk_location(name=name, tag=tag)
        s = _R.get_snapshot_location(name=name, tag=tag)
        tick('loc_lengths', [ln, lt])
        return len(c.rpartition('/')[2]) <= 255 and len(s.rpartition('/')[2]) <= 255 and \
            _R.parse_chunk_location(c) == (name, tag) and _R.parse_snapshot_location(s) == (name, tag)


class _P:
    pass


def _repo(encrypted, mackey=b'0'):
    r = Repository.__new__(Repository)
    r.props = rt.ideal_props(encrypted, mackey=mackey)
    return r


def n0_injective(d1: bytes, d2: bytes, encrypted: bool) -> bool:
    """Distinct digests get distinct chunk locations; equal digests the same one.
    pre: 1 <= len(d1) <= 2 and 1 <= len(d2) <= 2
    post: _
    """
    r = _repo(encrypted)
    l1, l2 = r._chunk_digest_to_location(d1), r._chunk_digest_to_location(d2)
    with NoTracing():
        tick('n0', None)
    return (l1 == l2) == (d1 == d2)


def n0_format(d1: bytes, encrypted: bool) -> bool:
    """name = MAC(digest), tag = MAC(MAC(digest)) (plain digest twice when unencrypted); snapshot name = digest,
    tag = MAC(digest); a different MAC key yields different names.
    pre: 1 <= len(d1) <= 3
    post: _
    """
    r = _repo(encrypted)
    p = r._chunk_digest_to_location_parts(d1)
    ok = True
    if encrypted:
        other = _repo(True, mackey=b'1')
        q = other._chunk_digest_to_location_parts(d1)
        if q.name == p.name or q.tag == p.tag:
            ok = False
        if p.name != (b'M0' + d1).hex() or p.tag != (b'M0M0' + d1).hex():
            ok = False
        s = r._snapshot_digest_to_location_parts(d1)
        if s.name != d1.hex() or s.tag != (b'M0' + d1).hex():
            ok = False
    else:
        if p.name != d1.hex() or p.tag != d1.hex():
            ok = False
        s = r._snapshot_digest_to_location_parts(d1)
        if s.name != d1.hex() or s.tag != d1.hex():
            ok = False
    with NoTracing():
        tick('n0f', None)
    return ok
