"""C09 - snapshot and restore do not depend on thread or I/O scheduling.

T1/T2: thread bodies of restore() lifted from the current source and turned into cooperative generators (pre-emption at
every statement boundary outside `with glock`), advanced by a SYMBOLIC schedule that CrossHair/z3 searches.
T3: slot discipline of the real backend wrappers on the deterministic loop.
T5: the whole snapshot() is re-compiled from the current source with the producer thread body turned into a generator and
pre-emption hooks inserted into the upload worker (between the operands of its loop condition and before every statement);
a schedule vector decides how many producer steps run at every hook; backend latencies decide completion order.
"""
from __future__ import annotations

import ast
import asyncio
import concurrent.futures
import inspect
import os
import queue as _queue
import threading
from typing import List

from crosshair.tracers import NoTracing

from vt import lift, rt, world
from vt.lift import RealFallback
from vt.core import digits, shard, tick

R = rt.patch_repository_for_miniloop()
from replicat.repository import Repository  # noqa: E402
from replicat import exceptions  # noqa: E402

REPLAY = bool(os.environ.get('VT_REPLAY'))


def _say(*a):
    if REPLAY:
        print('DETAIL:', *a)


# =========================================================================== T1: completion race in restore._download_chunk
class _OS:
    truncated = None

    @staticmethod
    def truncate(path, size):
        pass


def _tail_start(s):
    return lift.is_for_over(s, 'file_path')


_T1_FREE = ['self', 'digest', 'referenced_paths', 'glock', 'files_digests', 'files_metadata', 'files_sizes', 'finished_tracker']
_TAIL = lift.lift_range('replicat.repository', 'restore', _tail_start, None, _T1_FREE, [], inner='_download_chunk',
                        overrides={'logger': rt.Nop(), 'os': _OS}, generator_yield_locks={'glock'})


class _T1Self(RealFallback):
    def __init__(self):
        self.restored = []

    def restore_metadata(self, p, m):
        self.restored.append(p)


def _drive(gens, schedule):
    live = [True] * len(gens)
    n = len(gens)
    for s in schedule:
        s = s % n
        for off in range(n):
            j = (s + off) % n
            if live[j]:
                try:
                    next(gens[j])
                except StopIteration:
                    live[j] = False
                break
        else:
            break
    for i in range(n):
        while live[i]:
            try:
                next(gens[i])
            except StopIteration:
                live[i] = False


def t1_race(k: int) -> bool:
    """Two loader threads finish the last two chunks of one file under any interleaving (pre-emption at statement
    boundaries outside `with glock`): no exception, metadata restored exactly once, bookkeeping empty.
    pre: 0 <= k < 2 ** 10
    post: _
    """
    schedule = digits(k, [2] * 10)
    glock = threading.Lock()
    files_digests = {'F': {b'd0', b'd1'}}
    files_metadata = {'F': ('/x/F', {})}
    me = _T1Self()
    gens = [_TAIL(me, d, {'F'}, glock, files_digests, files_metadata, {'F': 3}, rt.Nop()) for d in (b'd0', b'd1')]
    _drive(gens, schedule)
    with NoTracing():
        tick('t1', None)
    return me.restored == ['/x/F'] and not files_metadata


def t1_race3(k: int) -> bool:
    """Three loader threads, two files sharing one digest.
    pre: shard(3 ** 7)[0] <= k < shard(3 ** 7)[1]
    post: _
    """
    schedule = digits(k, [3] * 7)
    glock = threading.Lock()
    files_digests = {'F': {b'd0', b'd1'}, 'G': {b'd1', b'd2'}}
    files_metadata = {'F': ('/x/F', {}), 'G': ('/x/G', {})}
    me = _T1Self()
    refs = {b'd0': {'F'}, b'd1': {'F', 'G'}, b'd2': {'G'}}
    gens = [_TAIL(me, d, refs[d], glock, files_digests, files_metadata, {'F': 3, 'G': 3}, rt.Nop()) for d in (b'd0', b'd1', b'd2')]
    _drive(gens, schedule)
    with NoTracing():
        tick('t1_3', None)
    return sorted(me.restored) == ['/x/F', '/x/G'] and not files_metadata


# =========================================================================== T2: per-file write locks
def _mk_write_ref():
    """_write_chunk_ref as a generator; `with flock:` bodies are critical sections too, entered only when free."""
    import replicat.repository as RR
    mod, tree = lift._module_tree('replicat.repository')
    o = lift._find_def(tree, 'restore')
    i = lift._find_def(o, '_write_chunk_ref')
    i = lift.Yielder({'glock', 'flock'}, spin=True).instrument(i)    # a thread that finds a lock held waits (yields) until it is free
    fac = ast.FunctionDef(name='_factory', args=lift._args(['self', 'files_metadata', 'glock', 'flocks', 'flocks_refcounts', 'bytes_tracker']),
                          body=[i, ast.Return(ast.Name('_write_chunk_ref', ast.Load()))], decorator_list=[], type_params=[])
    m = ast.Module(body=[fac], type_ignores=[])
    ast.fix_missing_locations(m)
    ns = dict(mod.__dict__)
    ns['logger'] = rt.Nop()
    ns['threading'] = _CoopThreading
    exec(compile(m, '<lifted restore._write_chunk_ref (coop)>', 'exec'), ns)
    return ns['_factory']


class _CoopLock:
    """Lock for cooperative generators: acquiring a held lock is a scheduling error the driver avoids by retrying."""

    def __init__(self):
        self.held = False

    def __enter__(self):
        if self.held:
            raise _WouldBlock()
        self.held = True
        return self

    def __exit__(self, *a):
        self.held = False


class _WouldBlock(Exception):
    pass


class _CoopThreading:
    Lock = _CoopLock


_WRITE_REF = None


class _T2Self(RealFallback):
    def __init__(self):
        self.active = {}
        self.max_active = 0
        self.writes = []

    def _write_file_part(self, path, data, offset):
        self.active[path] = self.active.get(path, 0) + 1
        self.max_active = max(self.max_active, self.active[path])
        self.writes.append((path, bytes(data), offset))
        self.active[path] -= 1


def t2_locks(k: int) -> bool:
    """Three writer threads (two on the same file): the lock table returns to empty, every part is written once.
    pre: shard(3 ** 7)[0] <= k < shard(3 ** 7)[1]
    post: _
    """
    schedule = digits(k, [3] * 7)
    global _WRITE_REF
    if _WRITE_REF is None:
        with NoTracing():
            _WRITE_REF = _mk_write_ref()
    me = _T2Self()
    glock = _CoopLock()
    flocks, refc = {}, {}
    fm = {'F': ('/x/F', {}), 'G': ('/x/G', {})}
    wr = _WRITE_REF(me, fm, glock, flocks, refc, rt.Nop())
    jobs = [(('F', 2, 0, 0), b'aabb'), (('F', 2, 2, 2), b'aabb'), (('G', 3, 0, 1), b'xyzw')]
    gens = [wr(ref, data) for ref, data in jobs]
    live = [True] * 3
    sched = list(schedule) + [0, 1, 2] * 40
    steps = 0
    for s in sched:
        if not any(live):
            break
        steps += 1
        for off in range(3):
            j = (s + off) % 3
            if not live[j]:
                continue
            try:
                next(gens[j])
            except StopIteration:
                live[j] = False
            except _WouldBlock:
                return False        # cannot happen: lock acquisition is preceded by a spin-wait on .held
            break
    with NoTracing():
        tick('t2', None)
    return not any(live) and flocks == {} and refc == {} and sorted(me.writes) == sorted([('/x/F', b'aa', 0), ('/x/F', b'bb', 2), ('/x/G', b'yzw', 0)])


# =========================================================================== T3: slots
def slots_case(n, m, op_i, fail_i, delays):
    be = rt.MemBackend({f'o{i}': b'x' for i in range(4)}, delays=delays, fail_call=fail_i if fail_i < m else None)
    repo = Repository(be, concurrent=n, cache_directory=None)
    loop = rt.MiniLoop()
    ops = [lambda i: repo._exists(f'o{i % 4}'), lambda i: repo._download(f'o{i % 4}'), lambda i: repo._upload_data(f'n{i}', b'y'),
           lambda i: repo._delete(f'o{i % 4}')]

    async def main():
        return await asyncio.gather(*(ops[(op_i + i) % 4](i) for i in range(m)), return_exceptions=True)
    res = loop.run_until_complete(main())
    if be.max_inflight > n:
        return False, f'{be.max_inflight} transfers in flight with concurrency {n}'
    if repo._slots.qsize() != n:
        return False, f'{repo._slots.qsize()} slots free afterwards, expected {n}'
    if sorted(repo._slots._queue) != list(range(2, n + 2)):
        return False, 'slot numbers corrupted'
    nfail = sum(1 for r in res if isinstance(r, Exception))
    if nfail != (1 if fail_i < m else 0):
        return False, f'{nfail} calls failed'
    return True, ''


def t3_slots(k: int) -> bool:
    """
    pre: shard(3 * 5 * 4 * 6 * 6)[0] <= k < shard(3 * 5 * 4 * 6 * 6)[1]
    post: _
    """
    ni, mi, op_i, fail_i, di = digits(k, [3, 5, 4, 6, 6])
    with NoTracing():
        delays = [[0], [0, 1], [1, 0], [2, 0, 1], [0, 2, 1, 3], [3, 1, 0, 2, 0]][di]
        ok, msg = slots_case(ni + 1, mi + 1, op_i, fail_i, delays)
        tick('t3', [ni + 1, mi + 1, op_i, fail_i, delays])
        if not ok:
            _say(msg)
        return ok


# =========================================================================== T5: producer thread / upload workers
class _Hooks(ast.NodeTransformer):
    """Inside `_worker`: call _pp() (pre-emption by the producer thread) before every statement and between the operands of
    boolean operators in `while` tests. Inside `_chunk_producer`: yield before every statement (thread -> generator)."""

    def visit_FunctionDef(self, node):
        if node.name == '_chunk_producer':
            node = _BlockingPut().visit(node)
            return lift.Yielder(set()).instrument(node)
        self.generic_visit(node)
        return node

    def visit_AsyncFunctionDef(self, node):
        if node.name == '_worker':
            node.body = self._hook_block(node.body)
            return node
        self.generic_visit(node)
        return node

    def _pp(self):
        return ast.Expr(ast.Call(ast.Name('_pp', ast.Load()), [], []))

    def _hook_block(self, stmts):
        out = []
        for s in stmts:
            out.append(self._pp())
            if isinstance(s, ast.While):
                s.test = self._hook_test(s.test)
                s.body = self._hook_block(s.body)
            elif isinstance(s, (ast.If,)):
                s.body = self._hook_block(s.body)
                s.orelse = self._hook_block(s.orelse)
            elif isinstance(s, ast.Try):
                s.body = self._hook_block(s.body)
                for h in s.handlers:
                    h.body = self._hook_block(h.body)
            out.append(s)
        return out

    def _hook_test(self, t):
        if isinstance(t, ast.BoolOp):
            vals = [t.values[0]]
            for v in t.values[1:]:
                # A or B  ->  A or (_pp() or B) ; A and B -> A and (_pp() or B)   (_pp() returns False)
                vals.append(ast.BoolOp(ast.Or(), [ast.Call(ast.Name('_pp', ast.Load()), [], []), v]))
            t.values = vals
        return t


class _BlockingPut(ast.NodeTransformer):
    """`q.put(x)` without a timeout blocks the producer thread while the loop thread keeps running: in the cooperative model
    it becomes `while q.full(): yield 'blocked-put'` followed by a non-blocking put."""

    def visit_Expr(self, node):
        c = node.value
        if isinstance(c, ast.Call) and isinstance(c.func, ast.Attribute) and c.func.attr == 'put' and \
                not any(k.arg in ('timeout', 'block') for k in c.keywords) and len(c.args) == 1:
            spin = ast.While(ast.Call(ast.Attribute(c.func.value, 'full', ast.Load()), [], []),
                             [ast.Expr(ast.Yield(ast.Constant('blocked-put')))], [])
            c.keywords.append(ast.keyword('block', ast.Constant(False)))
            return [spin, node]
        return node


class CoopExecutor:
    """Executor for the producer 'thread': the submitted generator function is advanced by the scheduler."""
    current = None

    def __init__(self, *a, **k):
        self.gen = None
        self.future = None

    def submit(self, fn, *a, **k):
        f = concurrent.futures.Future()
        res = fn(*a, **k)
        if inspect.isgenerator(res):
            self.gen, self.future = res, f
            CoopExecutor.current = self
        else:
            f.set_result(res)
        return f

    def advance(self, steps):
        if self.gen is None or getattr(self, 'running', False):
            return              # (the producer is blocked inside put(): it cannot be scheduled again until put returns)
        _SCHED['blocked'] = False
        for _ in range(steps):
            if _SCHED['blocked']:
                break
            try:
                self.running = True
                try:
                    if next(self.gen) == 'blocked-put':
                        return
                finally:
                    self.running = False
            except StopIteration as e:
                self.gen = None
                self.future.set_result(e.value)
                return
            except Exception as e:
                self.gen = None
                self.future.set_exception(e)
                return

    def shutdown(self, *a, **k):
        pass


class _NBQueue(_queue.Queue):
    def put(self, item, block=True, timeout=None):
        try:
            return super().put(item, block=False)
        except _queue.Full:
            _SCHED['blocked'] = True      # a real producer thread would now sleep in put(timeout): hand control back
            raise


class _QShim:
    Empty, Full = _queue.Empty, _queue.Full
    Queue = _NBQueue


_SNAP = None


def _coop_snapshot():
    """Repository.snapshot re-compiled from the current source with the transformations above."""
    global _SNAP
    if _SNAP is not None:
        return _SNAP
    mod, tree = lift._module_tree('replicat.repository')
    cls = [n for n in tree.body if isinstance(n, ast.ClassDef) and n.name == 'Repository'][0]
    fn = [n for n in cls.body if isinstance(n, ast.AsyncFunctionDef) and n.name == 'snapshot'][0]
    fn = _Hooks().visit(fn)
    m = ast.Module(body=[fn], type_ignores=[])
    ast.fix_missing_locations(m)
    ns = dict(mod.__dict__)
    ns['ThreadPoolExecutor'] = CoopExecutor
    ns['queue'] = _QShim
    ns['_pp'] = _pp
    exec(compile(m, '<coop Repository.snapshot>', 'exec'), ns)
    _SNAP = ns['snapshot']
    return _SNAP


_SCHED = {'steps': [0], 'i': 0, 'hooks': 0, 'blocked': False}


def _pp():
    ex = CoopExecutor.current
    _SCHED['hooks'] += 1
    if ex is not None and ex.gen is not None:
        s = _SCHED['steps'][_SCHED['i'] % len(_SCHED['steps'])]
        _SCHED['i'] += 1
        ex.advance(s)
    return False


# producer steps granted at successive pre-emption points (cycled); every pattern is fair (some entry > 0)
PATTERNS = [[1], [2], [7], [0, 0, 3], [0, 1, 0, 5], [3, 0, 0, 0, 1], [0, 0, 0, 9], [1, 0, 2, 0, 0, 4], [0, 0, 0, 0, 0, 30], [100], [0, 2], [0, 0, 0, 0, 1]]
FSETS = [[5], [9, 0, 17], [33, 4], [0, 0], [40, 40, 7], [150, 90]]     # the last: more chunks than the queue holds at concurrency 3


def snapshot_case(conc, pat, fs, delays, fail):
    rt.determinism(17)
    CoopExecutor.current = None
    _SCHED.update(steps=PATTERNS[pat], i=0, hooks=0)
    with world.scratch('c09') as d:
        src = d / 'src'
        src.mkdir()
        for i, n in enumerate(FSETS[fs]):
            (src / f'f{i}.bin').write_bytes(world.content(0, i, n))
        from vt.harness.gc import users, fresh_repo
        U = users(True)
        # fail: 0 none, 1 permanent backend error on the 2nd chunk upload, 2 that upload ends with CancelledError,
        # 3 the caller cancels the snapshot task while that upload is in flight (wait_for timeout, Ctrl-C)
        holder = {}
        be = rt.MemBackend({'config': U.config}, delays=delays, fail_op=('upload_stream', 1) if fail in (1, 2) else None,
                           fail_exc=asyncio.CancelledError if fail == 2 else None,
                           hook=('upload_stream', 1, lambda: holder['task'].cancel()) if fail == 3 else None)
        repo = fresh_repo(U, 'A', be, concurrent=conc)
        loop = rt.MiniLoop(budget=200000)
        snap = _coop_snapshot()

        async def run():
            holder['task'] = asyncio.current_task()
            return await snap(repo, paths=[src])
        # the producer also advances whenever the loop is about to run a step (another thread runs whenever it likes)
        orig_step = loop._step
        _SCHED['loop'], _SCHED['raw_step'] = loop, orig_step

        def step():
            _pp()
            ex0 = CoopExecutor.current
            # the loop thread would block here; the producer thread keeps running on its own
            spins = 0
            while not loop._ready and not loop._timers and ex0 is not None and ex0.gen is not None:
                ex0.advance(1)
                spins += 1
                if spins > 50000:
                    raise RuntimeError('hang: the loop waits for the producer thread, which never finishes')
            orig_step()
        loop._step = step
        try:
            res = loop.run_until_complete(run())
        except rt.BackendFault:
            res = None
            if not fail:
                return False, 'spurious backend fault'
        except asyncio.CancelledError:
            res = None
            if fail not in (2, 3):
                return False, 'spurious cancellation'
        except Exception as e:
            return False, f'snapshot raised {e!r} (hooks={_SCHED["hooks"]})'
        # let calls that were still in flight when the command returned/raised run to completion
        asyncio._set_running_loop(loop)
        try:
            for _ in range(20000):
                if not loop._ready and not loop._timers:
                    break
                step()
        except Exception:
            pass
        finally:
            asyncio._set_running_loop(None)
        ex = CoopExecutor.current
        if ex is not None and ex.gen is not None:
            return False, 'snapshot returned while the producer thread is still running'
        if repo._slots.qsize() != conc:
            return False, f'{repo._slots.qsize()} slots free after snapshot, expected {conc}'
        if be.max_inflight > conc:
            return False, f'{be.max_inflight} transfers in flight with concurrency {conc}'
        if fail:
            if res is not None and any(k.startswith('snapshots/') for k in be.objs):
                # a failed chunk upload must not yield a snapshot
                missing = [dg for dg in res.chunks if repo._chunk_digest_to_location(dg) not in be.objs]
                if missing:
                    return False, 'snapshot uploaded although a chunk upload failed for good'
            return True, ''
        # sequential reference: concurrency 1, FIFO completion, producer run to completion first
        CoopExecutor.current = None
        _SCHED.update(steps=[10 ** 6], i=0)
        rt.determinism(17)
        be2 = rt.MemBackend({'config': U.config})
        repo2 = fresh_repo(U, 'A', be2, concurrent=1)
        loop2 = rt.MiniLoop()
        o2 = loop2._step
        _SCHED['loop'], _SCHED['raw_step'] = loop2, o2

        def step2():
            _pp()
            o2()
        loop2._step = step2
        ref = loop2.run_until_complete(snap(repo2, paths=[src]))

        def norm(r):
            table = r.chunks
            return sorted((f['path'], tuple(sorted((c['counter'], table[c['index']], tuple(c['range'])) for c in f['chunks'])), f['digest'])
                          for f in r.data['files'])
        if norm(res) != norm(ref):
            return False, f'result differs from the sequential run (hooks={_SCHED["hooks"]})'
        covered = sum(c['range'][1] - c['range'][0] for f in res.data['files'] for c in f['chunks'])
        if covered != sum(FSETS[fs]) or len(res.data['files']) != len(FSETS[fs]):
            return False, f'snapshot covers {covered} bytes / {len(res.data["files"])} files of {sum(FSETS[fs])} / {len(FSETS[fs])}'
        for dg in res.chunks:
            if repo._chunk_digest_to_location(dg) not in be.objs:
                return False, 'snapshot references a chunk that was never uploaded'
        if {k for k in be.objs if k.startswith('data/')} != {k for k in be2.objs if k.startswith('data/')}:
            return False, 'different chunk objects than the sequential run'
        return True, ''


def t5_snapshot(k: int) -> bool:
    """
    pre: shard(3 * 12 * 6 * 5 * 4)[0] <= k < shard(3 * 12 * 6 * 5 * 4)[1]
    post: _
    """
    ci, pat, fs, di, fail = digits(k, [3, 12, 6, 5, 4])
    with NoTracing():
        delays = [[0], [0, 1], [2, 0, 1], [0, 3, 0, 1], [1, 1, 0]][di]
        ok, msg = snapshot_case([1, 2, 3][ci], pat, fs, delays, fail)
        tick('t5', [[1, 2, 3][ci], PATTERNS[pat], FSETS[fs], delays, fail])
        if not ok:
            _say([1, 2, 3][ci], PATTERNS[pat], FSETS[fs], delays, fail, msg)
        return ok


# =========================================================================== T4r: restore under completion orders / latencies
def restore_case(conc, di, fs, enc, wfail=None):
    """snapshot once (sequentially), then restore with `conc` loader slots and a latency pattern: identical tree, slots
    restored, in-flight transfers <= conc."""
    from vt.harness.gc import users, fresh_repo
    rt.determinism(43)
    delays = [[0], [0, 1], [2, 0, 1], [0, 3, 0, 1], [1, 1, 0], [3, 2, 1, 0]][di]
    with world.scratch('c09r') as d:
        src = d / 'src'
        src.mkdir()
        want = {}
        for i, n in enumerate(FSETS[fs] + [21, 21]):
            p = src / f'f{i}.bin'
            p.write_bytes(world.content(1 if i >= len(FSETS[fs]) else 0, i, n))      # the two extra files share content (shared chunks)
            want[str(p.resolve())] = p.read_bytes()
        U = users(bool(enc))
        be = rt.MemBackend({'config': U.config})
        rt.MiniLoop().run_until_complete(fresh_repo(U, 'A', be, concurrent=1).snapshot(paths=[src]))
        be.delays = delays
        repo = rt.guard_slots(fresh_repo(U, 'A', be, concurrent=conc))
        before = be.max_inflight = 0
        if wfail is not None:
            # the wfail-th write of a file part fails in its writer thread (disk full): a sequential restore would stop with
            # that error, so this one must not report success with a damaged file
            real_w, nw = repo._write_file_part, {'n': 0}

            def failing_write(*a, **k):
                nw['n'] += 1
                if nw['n'] - 1 == wfail:
                    raise OSError(28, 'No space left on device (injected)')
                return real_w(*a, **k)
            repo._write_file_part = failing_write
        try:
            res = rt.MiniLoop().run_until_complete(repo.restore(path=d / 'out'))
        except Exception as e:
            if rt.THREAD_VIOLATIONS:                 # e.g. the error path joins its thread pools on the loop thread (C09_g)
                return False, rt.THREAD_VIOLATIONS[0]
            if wfail is not None and nw['n'] > wfail:
                return True, 'raised'
            return False, f'restore raised {e!r}'
        if wfail is not None and nw['n'] > wfail:
            got = {'/' + k: v[0] for k, v in world.tree_state(d / 'out').items()}
            if got != want:
                bad = [k for k in want if got.get(k) != want[k]]
                return False, f'write #{wfail} of a file part failed in its writer thread, yet restore reported success; {len(bad)} file(s) differ from the snapshot'
        if rt.THREAD_VIOLATIONS:
            return False, rt.THREAD_VIOLATIONS[0]
        got = {'/' + k: v[0] for k, v in world.tree_state(d / 'out').items()}
        if got != want:
            return False, 'restored tree differs under latencies ' + str(delays)
        if sorted(res.files) != sorted(want):
            return False, 'restore reports a different file list'
        if be.max_inflight > conc:
            return False, f'{be.max_inflight} downloads in flight with concurrency {conc}'
        if repo._slots.qsize() != conc:
            return False, f'{repo._slots.qsize()} slots free after restore, expected {conc}'
        return True, ''


def t4_restore(k: int) -> bool:
    """
    pre: shard(3 * 6 * 5 * 2 * 4)[0] <= k < shard(3 * 6 * 5 * 2 * 4)[1]
    post: _
    """
    ci, di, fs, enc, wi = digits(k, [3, 6, 5, 2, 4])
    with NoTracing():
        ok, msg = restore_case([1, 2, 4][ci], di, fs, enc, [None, 0, 2, 5][wi])
        tick('t4r', [[1, 2, 4][ci], di, FSETS[fs], enc, wi, msg[:6]])
        if not ok:
            _say(msg)
        return ok
