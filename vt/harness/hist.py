"""Histories of real commands by several users (C02, C06, C07): snapshot / delete / clean on an in-memory backend,
real crypto, real files, long-lived Repository objects (one per user), deterministic event loop."""
from __future__ import annotations

import os
from pathlib import Path

from crosshair.tracers import NoTracing

from vt import rt, world
from vt.core import digits, shard, tick
from vt.harness import gc
from vt.harness.gc import R, Repository, exceptions, fresh_repo, users

REPLAY = bool(os.environ.get('VT_REPLAY'))

X, Y, Z, W = (bytes([c]) * 8 + bytes([c + 1]) * 8 for c in (0x30, 0x40, 0x50, 0x60))
FILESETS = [
    {'a.bin': X + Y, 'b.bin': Y},
    {'a.bin': X + Z},
    {'b.bin': Y, 'c.bin': X, 'd.bin': b''},
    {'a.bin': W + X + W + X, 'e.bin': X[:8] + X[:8] + X[:8]},   # repeated block inside one file
]
USERS = 'ABC'


def _say(*a):
    if REPLAY:
        print('DETAIL:', *a)


_REF_READERS = {}


class History:
    def __init__(self, d: Path, encrypted=True, concurrent=2, delays=None, fresh_objects=False):
        self.U = users(encrypted)
        rt.determinism(11)
        self.d = d
        self.be = rt.MemBackend({'config': self.U.config}, delays=delays)
        self.concurrent = concurrent
        self.fresh = fresh_objects
        self.fresh_destructive = False     # destructive commands issued by another client object of the same user (like a CLI call)
        self.repos = {u: fresh_repo(self.U, u, self.be, concurrent=concurrent) for u in USERS}
        self.snaps = []       # dict(name, owner, files{rel: bytes}, alive)
        self.loop = rt.MiniLoop()
        self.n = 0
        self.upload_log = []  # (op index, uploaded chunk count, uploaded bytes)

    def repo(self, u):
        if self.fresh:
            return fresh_repo(self.U, u, self.be, concurrent=self.concurrent)
        return self.repos[u]

    def run(self, coro):
        return self.loop.run_until_complete(coro)

    def snapshot(self, u, fs):
        self.n += 1
        src = self.d / f'src{self.n}'
        src.mkdir()
        for name, data in FILESETS[fs].items():
            (src / name).write_bytes(data)
        before_up = self.be.counts['upload_stream']
        before_bytes = self.be.uploaded_bytes
        res = self.run(self.repo(u).snapshot(paths=[src]))
        files = {str((src / n).resolve()): data for n, data in FILESETS[fs].items()}
        self.snaps.append({'name': res.name, 'owner': u, 'files': files, 'alive': True, 'chunks': list(res.chunks), 'fs': fs})
        # the snapshot object itself goes through upload(), chunks through upload_stream()
        self.upload_log.append((self.n, self.be.counts['upload_stream'] - before_up, self.be.uploaded_bytes - before_bytes))
        return res

    def snapshot_paths(self, u, paths):
        res = self.run(self.repo(u).snapshot(paths=list(paths)))
        self.snaps.append({'name': res.name, 'owner': u, 'files': None, 'alive': True, 'chunks': list(res.chunks), 'fs': None})
        return res

    def delete_latest(self, u, n=1):
        mine = [s for s in self.snaps if s['alive'] and (s['owner'] == u or not self.U.encrypted)]
        if not mine:
            return None
        victims = mine[-n:]
        r = fresh_repo(self.U, u, self.be, concurrent=self.concurrent) if self.fresh_destructive else self.repo(u)
        if getattr(self, 'confirm', False):
            # through the interactive prompt, answered 'y'
            import contextlib
            import io
            R.input = lambda prompt='': 'y'
            try:
                with contextlib.redirect_stdout(io.StringIO()):
                    self.run(r.delete_snapshots([s['name'] for s in victims], confirm=True))
            finally:
                del R.input
        else:
            self.run(r.delete_snapshots([s['name'] for s in victims], confirm=False))
        for s in victims:
            s['alive'] = False
        return victims[-1]

    def clean(self, u):
        r = fresh_repo(self.U, u, self.be, concurrent=self.concurrent) if self.fresh_destructive else self.repo(u)
        self.run(r.clean())

    def verify_restorable(self):
        """Every snapshot still listed restores completely with its owner's key to exactly the captured bytes."""
        listed = {k for k in self.be.objs if k.startswith('snapshots/')}
        alive = [s for s in self.snaps if s['alive']]
        names = {k.rpartition('-')[2] for k in listed}
        for s in alive:
            if s['name'] not in names:
                return False, f'snapshot {s["name"][:8]} of {s["owner"]} disappeared'
        if len(names) != len(alive):
            return False, f'{len(names)} snapshot objects listed, {len(alive)} expected'
        for i, s in enumerate(alive):
            out = self.d / f'out{i}'
            try:
                r = fresh_repo(self.U, s['owner'], self.be, concurrent=self.concurrent)
                res = rt.MiniLoop().run_until_complete(r.restore(snapshot_regex='^' + s['name'] + '$', path=out))
            except Exception as e:
                return False, f'restore of {s["name"][:8]} ({s["owner"]}) raised {e!r}'
            got = {'/' + k: v[0] for k, v in world.tree_state(out).items()}
            if got != s['files']:
                return False, f'restore of {s["name"][:8]} ({s["owner"]}) differs: {sorted(got)} vs {sorted(s["files"])}'
        # ... and by an independent reader (vt/ref_format.py: its own key derivation, no state shared with replicat - what a
        # restore from another process or another implementation sees)
        from vt import ref_format as RF
        for s in alive:
            if s['files'] is None:
                continue
            key = (self.U.encrypted, s['owner'])
            if key not in _REF_READERS:
                r0 = self.repos[s['owner']]
                kj = r0.serialize(self.U.keys[s['owner']]) if self.U.encrypted else None
                _REF_READERS[key] = RF.Repo(self.U.config, kj, self.U.pw[s['owner']])
            ref = _REF_READERS[key]
            try:
                mine = [x for x in ref.read_snapshots(self.be.objs) if x.get('data') is not None and x['name'] == s['name']]
                if len(mine) != 1:
                    return False, f'independent reader: snapshot {s["name"][:8]} of {s["owner"]} not readable with its owner key'
                files = ref.read_files(self.be.objs, mine[0])
            except Exception as e:
                return False, f'independent reader cannot decode snapshot {s["name"][:8]} of {s["owner"]}: {e!r}'
            if files != s['files']:
                return False, f'independent reader decodes different files for snapshot {s["name"][:8]} of {s["owner"]}'
        return True, ''

    def verify_dedup(self):
        """C07: chunk objects of each family == distinct chunks referenced by that family's live snapshots
        (only meaningful right after snapshots / after a clean by each family)."""
        return True, ''


OPS = [('snap', u, fs) for u in USERS for fs in range(3)] + [('del', u, None) for u in USERS] + [('clean', u, None) for u in USERS]


def run_history(codes, encrypted=True, concurrent=2, delays=None, fresh_objects=False):
    with world.scratch('hist') as d:
        h = History(d, encrypted=encrypted, concurrent=concurrent, delays=delays, fresh_objects=fresh_objects)
        h.fresh_destructive = sum(codes) % 2 == 1
        h.confirm = sum(codes) % 5 == 0
        trace = []
        for c in codes:
            op, u, fs = OPS[c]
            trace.append((op, u, fs))
            try:
                if op == 'snap':
                    h.snapshot(u, fs)
                elif op == 'del':
                    h.delete_latest(u)
                else:
                    h.clean(u)
            except Exception as e:
                return False, f'{trace}: {op} by {u} raised {e!r}'
        ok, msg = h.verify_restorable()
        return ok, (f'{trace}: {msg}' if not ok else '')


def h3(k: int) -> bool:
    """Histories of 3 commands from a repository that already holds one snapshot of A (fileset 0).
    pre: shard(15 * 15 * 15)[0] <= k < shard(15 * 15 * 15)[1]
    post: _
    """
    c0, c1, c2 = digits(k, [15, 15, 15])
    with NoTracing():
        ok, msg = run_history([0, c0, c1, c2])
        tick('h3', [OPS[c] for c in (c0, c1, c2)])
        if not ok:
            _say(msg)
        return ok


def h3u(k: int) -> bool:
    """Same for an unencrypted repository (any user may delete any snapshot).
    pre: shard(15 * 15 * 15)[0] <= k < shard(15 * 15 * 15)[1] and k % 3 == 0
    post: _
    """
    c0, c1, c2 = digits(k, [15, 15, 15])
    with NoTracing():
        ok, msg = run_history([0, c0, c1, c2], encrypted=False)
        tick('h3u', [OPS[c] for c in (c0, c1, c2)])
        if not ok:
            _say(msg)
        return ok


def h4(k: int) -> bool:
    """Thorough: histories of 4 commands, non-FIFO completion latencies, concurrency 3, fresh objects per command
    on odd vectors.
    pre: shard(15 * 15 * 15 * 15)[0] <= k < shard(15 * 15 * 15 * 15)[1]
    post: _
    """
    c0, c1, c2, c3 = digits(k, [15, 15, 15, 15])
    with NoTracing():
        ok, msg = run_history([c0, c1, c2, c3], concurrent=3, delays=[0, 2, 1, 0, 3], fresh_objects=bool((c0 + c3) % 2))
        tick('h4', [OPS[c] for c in (c0, c1, c2, c3)])
        if not ok:
            _say(msg)
        return ok


# =========================================================================== C07: identical data is stored once
EQ = [bytes([0x21 + i]) * 7 + bytes(range(10 * i, 10 * i + 25)) for i in range(4)]       # four 32-byte files, distinct contents
DSETS = [
    {'a.bin': X + Y, 'b.bin': Y},                                  # shared block between files
    {'a.bin': EQ[0], 'b.bin': EQ[1], 'c.bin': EQ[2], 'd.bin': EQ[3]},   # equal sizes: order is decided by the path tie-break
    {'a.bin': W + X + W + X, 'e.bin': X[:8] * 3},                  # repeated block inside one file
    {'p.bin': X + Y + Z, 'q.bin': X + Y + Z, 'r.bin': b''},        # identical files
]
ORDERS = [(0, 1, 2, 3), (3, 1, 0, 2), (2, 3, 1, 0)]


def dedup_case(ds, o1, o2, u1, u2, conc, as_dir):
    """Snapshot of data set `ds` by user u1 (argument order o1), then of the SAME unchanged files by u2 (order o2)."""
    with world.scratch('c07') as d:
        h = History(d, encrypted=True, concurrent=conc)
        src = d / 'data'
        src.mkdir()
        names = sorted(DSETS[ds])
        for n in names:
            (src / n).write_bytes(DSETS[ds][n])

        def args(o):
            if as_dir:
                return [src]
            return [src / names[i] for i in ORDERS[o] if i < len(names)]
        r1 = h.run(h.repo(u1).snapshot(paths=args(o1)))
        objs1 = {k for k in h.be.objs if k.startswith('data/')}
        up1 = h.be.counts['upload_stream']
        fam1, fam2 = h.U.family(u1), h.U.family(u2)
        # (4) right after the first snapshot: chunk objects == distinct chunks referenced
        if len(objs1) != len(set(r1.chunks)):
            return False, f'{len(objs1)} chunk objects for {len(set(r1.chunks))} distinct chunks referenced'
        if conc == 1 and up1 != len(set(r1.chunks)):
            # (with several workers two occurrences of one chunk may both be uploaded before either exists: same object, not a violation)
            return False, f'{up1} chunk uploads for {len(set(r1.chunks))} distinct chunks with a single worker'
        r2 = h.run(h.repo(u2).snapshot(paths=args(o2)))
        up2 = h.be.counts['upload_stream'] - up1
        objs2 = {k for k in h.be.objs if k.startswith('data/')}
        if fam1 == fam2:
            if up2 != 0:
                return False, f'unchanged data snapshotted again by {u2} (same key family as {u1}) uploaded {up2} chunk(s)'
            if objs2 != objs1 or set(r2.chunks) != set(r1.chunks):
                return False, 'second snapshot of unchanged data references/created different chunk objects'
        else:
            if objs2 & objs1 != objs1 or (objs2 - objs1) & objs1:
                return False, 'first family objects changed'
            if len(objs2 - objs1) != len(set(r2.chunks)):
                return False, f'independent user created {len(objs2 - objs1)} objects for {len(set(r2.chunks))} distinct chunks'
            own2 = {h.repos[u2]._chunk_digest_to_location(dg) for dg in r2.chunks}
            if own2 & objs1:
                return False, 'independent key families alias object names'
        return True, ''


def e_dedup(k: int) -> bool:
    """
    pre: shard(4 * 3 * 3 * 3 * 3 * 2 * 2)[0] <= k < shard(4 * 3 * 3 * 3 * 3 * 2 * 2)[1]
    post: _
    """
    ds, o1, o2, u1, u2, ci, as_dir = digits(k, [4, 3, 3, 3, 3, 2, 2])
    with NoTracing():
        ok, msg = dedup_case(ds, o1, o2, USERS[u1], USERS[u2], [1, 3][ci], bool(as_dir))
        tick('e_dedup', [ds, o1, o2, USERS[u1], USERS[u2], [1, 3][ci], as_dir])
        if not ok:
            _say(ds, o1, o2, USERS[u1], USERS[u2], msg)
        return ok


# --------------------------------------------------------------------------- non-destructive commands overlapping in time (C02 quantifier)
OV_PAIRS = [('A', 'A'), ('A', 'B'), ('A', 'C'), ('B', 'C')]
OV_DELAYS = [[0], [0, 2, 1], [3, 0, 0, 1], [1, 0, 2, 0, 0, 4]]


def overlap_case(kind, pair_i, f1, f2, di, conc):
    """Two non-destructive commands run at the same time against one store (backend calls interleaved by the latency
    pattern): two snapshots by two clients, two snapshots on ONE client object, snapshot || restore, snapshot || listings.
    Afterwards every snapshot restores exactly and the overlapped restore wrote exactly the captured bytes."""
    import asyncio
    import contextlib
    import io
    with world.scratch('c02o') as d:
        h = History(d, encrypted=True, concurrent=conc, delays=OV_DELAYS[di])
        base = h.snapshot('A', 0)
        u1, u2 = OV_PAIRS[pair_i]
        srcs = []
        for j, fs in enumerate((f1, f2)):
            src = d / f'ov{j}'
            src.mkdir()
            for name, data in FILESETS[fs].items():
                (src / name).write_bytes(data)
            srcs.append(src)
        r1 = fresh_repo(h.U, u1, h.be, concurrent=conc)
        r2 = r1 if kind == 1 else fresh_repo(h.U, u2 if kind in (0, 1) else 'A', h.be, concurrent=conc)
        out = d / 'ov_out'
        buf = io.StringIO()

        async def both():
            if kind in (0, 1):
                return await asyncio.gather(r1.snapshot(paths=[srcs[0]]), r2.snapshot(paths=[srcs[1]]))
            if kind == 2:
                return await asyncio.gather(r1.snapshot(paths=[srcs[0]]), r2.restore(snapshot_regex='^' + base.name + '$', path=out))
            # (each listing from its own client object, like separate processes: the inline runtime cannot interleave two
            # loader 'threads' of one object)
            r3 = fresh_repo(h.U, 'A', h.be, concurrent=conc)
            return await asyncio.gather(r1.snapshot(paths=[srcs[0]]), r2.list_snapshots(), r3.list_files())
        try:
            with contextlib.redirect_stdout(buf):
                res = h.run(both())
        except Exception as e:
            return False, f'overlapping commands raised {e!r}'
        owners = [u1, (u1 if kind == 1 else u2)]
        for j, r in enumerate(res[:2 if kind in (0, 1) else 1]):
            files = {str((srcs[j] / n).resolve()): data for n, data in FILESETS[(f1, f2)[j]].items()}
            h.snaps.append({'name': r.name, 'owner': owners[j], 'files': files, 'alive': True, 'chunks': list(r.chunks), 'fs': (f1, f2)[j]})
        if kind in (0, 1) and res[0].name == res[1].name:
            return False, 'two snapshots taken at the same time got the same name'
        if kind == 2:
            got = {'/' + k: v[0] for k, v in world.tree_state(out).items()}
            if got != h.snaps[0]['files']:
                return False, f'restore overlapping a snapshot wrote {sorted(got)} instead of the captured files'
        if kind == 3 and base.name not in buf.getvalue():
            return False, 'listing overlapping a snapshot does not show the existing snapshot'
        ok, msg = h.verify_restorable()
        if not ok:
            return False, msg
        for s_ in h.snaps:
            for dg in s_['chunks']:
                if h.repos[s_['owner']]._chunk_digest_to_location(dg) not in h.be.objs:
                    return False, 'a referenced chunk is missing'
        if h.be.max_inflight > 2 * conc:
            return False, f'{h.be.max_inflight} calls in flight for two commands with concurrency {conc}'
        return True, ''


def e_overlap(k: int) -> bool:
    """
    pre: shard(4 * 4 * 4 * 4 * 4 * 2)[0] <= k < shard(4 * 4 * 4 * 4 * 4 * 2)[1]
    post: _
    """
    kind, pi, f1, f2, di, ci = digits(k, [4, 4, 4, 4, 4, 2])
    with NoTracing():
        ok, msg = overlap_case(kind, pi, f1, f2, di, [1, 3][ci])
        tick('e_overlap', [kind, OV_PAIRS[pi], f1, f2, di, ci])
        if not ok:
            _say(msg)
        return ok


# --------------------------------------------------------------------------- bulk garbage collection (C08_d): thousands of chunks in one command
BULK_N = [3900, 4010, 8100, 15000]     # bytes of the big file; with 4..8-byte chunks roughly 975, 1003, 2025, 3750 distinct chunks


def gc_bulk_case(encrypted, ni, op, conc):
    import random
    U = users(encrypted)
    with world.scratch('c08b') as d:
        h = History(d, encrypted=encrypted, concurrent=conc)
        h.snapshot('A', 0)
        big = d / 'big'
        big.mkdir()
        (big / 'big.bin').write_bytes(random.Random(ni).randbytes(BULK_N[ni]))
        (big / 'x.bin').write_bytes(FILESETS[0]['b.bin'])          # shares a chunk with the kept snapshot
        h.snapshot_paths('A', [big])
        h.snapshot('C', 1)
        h.be.objs['misc/readme.txt'] = b'not ours'
        before = dict(h.be.objs)
        bigsnap, kept, foreign = h.snaps[1], h.snaps[0], h.snaps[2]
        r = fresh_repo(U, 'A', h.be, concurrent=conc)
        ndist = len(set(bigsnap['chunks']))
        try:
            if op == 0:
                h.run(r.delete_snapshots([bigsnap['name']], confirm=False))
                remaining = [kept, foreign]
            elif op == 1:
                loc = next(k for k in h.be.objs if k.startswith('snapshots/') and k.endswith('-' + bigsnap['name']))
                del h.be.objs[loc]                                    # an interrupted delete: thousands of orphans
                h.run(r.clean())
                remaining = [kept, foreign]
            else:
                h.run(r.delete_snapshots([kept['name'], bigsnap['name']], confirm=False))
                remaining = [foreign]
        except Exception as e:
            return False, f'command raised {e!r}', ndist
        want = set()
        for s_ in remaining:
            want |= {h.repos[s_['owner']]._chunk_digest_to_location(dg) for dg in s_['chunks']}
        have = {k for k in h.be.objs if k.startswith('data/')}
        if have != want:
            return False, (f"{['delete of a snapshot', 'clean after an interrupted delete', 'delete of two snapshots'][op]} with {ndist} distinct chunks to remove: "
                           f'{len(have - want)} unreferenced chunk object(s) left, {len(want - have)} referenced one(s) removed'), ndist
        for k, v in before.items():
            if not k.startswith('data/') and k in h.be.objs and h.be.objs[k] != v:
                return False, f'{k} overwritten', ndist
        if 'misc/readme.txt' not in h.be.objs or 'config' not in h.be.objs:
            return False, 'object outside the chunk and snapshot areas removed', ndist
        snaps_left = {k for k in h.be.objs if k.startswith('snapshots/')}
        if len(snaps_left) != len(remaining):
            return False, f'{len(snaps_left)} snapshot objects left, expected {len(remaining)}', ndist
        if h.be.max_inflight > conc:
            return False, f'{h.be.max_inflight} calls in flight with concurrency {conc}', ndist
        return True, '', ndist


def g_bulk(k: int) -> bool:
    """
    pre: shard(2 * 4 * 3 * 2)[0] <= k < shard(2 * 4 * 3 * 2)[1]
    post: _
    """
    enc, ni, op, ci = digits(k, [2, 4, 3, 2])
    with NoTracing():
        ok, msg, nd = gc_bulk_case(bool(enc), ni, op, [2, 7][ci])
        tick('g_bulk', [enc, BULK_N[ni], op, ci, nd])
        if not ok:
            _say(msg)
        return ok


# --------------------------------------------------------------------------- destructive commands under listing faults (C02_d)
LIST_EXCS = [lambda p: OSError(5, 'injected I/O error', str(p)), lambda p: PermissionError(13, 'injected EACCES', str(p))]


def gc_list_fault_case(caller, op, which, exc_i, combo):
    """A, B (shared key) and C (own key) each hold a snapshot in a Local repository; `caller` runs clean or deletes its own
    snapshot while the `which`-th directory scan of that command fails. Whatever the command does (finish or raise), every
    snapshot file still in the store must keep all the chunk objects it references."""
    import replicat.backends.local as LB
    U = users(True)
    with world.scratch('c02l') as d:
        rt.determinism(17)
        root = d / 'repo'
        root.mkdir()
        (root / 'config').write_bytes(U.config)
        be = LB.Local(str(root))
        loop = rt.MiniLoop()
        snaps = []
        for i, u in enumerate('ABC'):
            src = d / f'src{u}'
            src.mkdir()
            for name, data in FILESETS[(combo + i) % len(FILESETS)].items():
                (src / name).write_bytes(data)
            r = fresh_repo(U, u, be)
            res = loop.run_until_complete(r.snapshot(paths=[src]))
            snaps.append({'owner': u, 'name': res.name, 'locs': [r._chunk_digest_to_location(dg) for dg in res.chunks]})
        state = {'n': 0, 'hit': 0}
        real = os.scandir

        def faulty(path):
            i = state['n']
            state['n'] += 1
            if i == which:
                state['hit'] += 1
                raise LIST_EXCS[exc_i](path)
            return real(path)

        r = fresh_repo(U, caller, be)
        raised = None
        os.scandir = faulty
        try:
            try:
                if op == 0:
                    loop.run_until_complete(r.clean())
                else:
                    mine = [s['name'] for s in snaps if s['owner'] == caller]
                    loop.run_until_complete(r.delete_snapshots(mine, confirm=False))
            except Exception as e:
                raised = e
        finally:
            os.scandir = real
        present = {str(p.relative_to(root)).replace(os.sep, '/') for p in root.rglob('*') if p.is_file()}
        for s in snaps:
            listed = any(p.startswith('snapshots/') and p.endswith('-' + s['name']) for p in present)
            if not listed:
                continue
            lost = [l for l in s['locs'] if l not in present]
            if lost:
                return False, (f"{['clean', 'delete'][op]} by {caller} with directory scan #{which} failing "
                               f"({type(LIST_EXCS[exc_i]('x')).__name__}; command {'raised ' + type(raised).__name__ if raised else 'reported success'}): "
                               f"snapshot of {s['owner']} is still in the store but lost {len(lost)} of its {len(s['locs'])} chunk objects"), state
        return True, ('raised' if raised else 'ok'), state


def e_gc_list_fault(k: int) -> bool:
    """
    pre: shard(3 * 2 * 32 * 2 * 2)[0] <= k < shard(3 * 2 * 32 * 2 * 2)[1]
    post: _
    """
    ci, op, which, exc_i, combo = digits(k, [3, 2, 32, 2, 2])
    with NoTracing():
        ok, msg, st = gc_list_fault_case('ABC'[ci], op, which, exc_i, combo)
        tick('e_gc_list_fault', ['ABC'[ci], op, which, exc_i, combo, st['hit'], msg[:6]])
        if not ok:
            _say(msg)
        return ok


# --------------------------------------------------------------------------- dedup under different rate limits (C07_d)
_BIG = {}
BIG_SIZES = [130_001, 300_007, 524_288, 1_200_000]
RATES1 = [None, 4_000_000]                              # first snapshot (uploads everything: high limits only, real sleeps)
RATES2 = [None, 150_000, 1_000_000, 4_000_000, 128_000]  # second snapshot of the unchanged data (expected to upload nothing)


def big_users():
    """Repository with 4096..16384-byte chunks; A = init, B = shared key added by A."""
    if not _BIG:
        from replicat.repository import Repository
        rt.determinism(5)
        be = rt.MemBackend()
        a = Repository(be, concurrent=2, cache_directory=None)
        with rt.silence():
            init = rt.MiniLoop().run_until_complete(a.init(password=b'pa', settings=rt.fast_settings(chunking={'min_length': 4096, 'max_length': 16384})))
            kb = rt.MiniLoop().run_until_complete(a.add_key(password=b'pb', shared=True, settings={'encryption': {'kdf': dict(rt.FAST_KDF)}})).new_key
        _BIG['config'] = be.objs['config']
        _BIG['keys'] = {'A': (b'pa', init.key), 'B': (b'pb', kb)}
    return _BIG


def dedup_rate_case(si, r1, r2, u1, u2, conc):
    import random
    from replicat.repository import Repository
    U = big_users()
    with world.scratch('c07r') as d:
        rt.determinism(13)
        be = rt.MemBackend({'config': U['config']})
        loop = rt.MiniLoop()
        repos = {}
        for u in {u1, u2}:
            r = Repository(be, concurrent=conc, cache_directory=None)
            loop.run_until_complete(r.unlock(password=U['keys'][u][0], key=U['keys'][u][1]))
            repos[u] = r
        src = d / 'data'
        src.mkdir()
        (src / 'small').write_bytes(b'hello')
        (src / 'zbig.bin').write_bytes(random.Random(si).randbytes(BIG_SIZES[si]))
        s1 = loop.run_until_complete(repos[u1].snapshot(paths=[src], rate_limit=RATES1[r1]))
        up1 = be.counts['upload_stream']
        objs1 = {k for k in be.objs if k.startswith('data/')}
        s2 = loop.run_until_complete(repos[u2].snapshot(paths=[src], rate_limit=RATES2[r2]))
        up2 = be.counts['upload_stream'] - up1
        objs2 = {k for k in be.objs if k.startswith('data/')}
        if up2 != 0 or objs2 != objs1:
            return False, (f'unchanged data ({BIG_SIZES[si]} bytes) snapshotted again with rate_limit={RATES2[r2]} (first: {RATES1[r1]}) '
                           f'uploaded {up2} chunk(s), {len(objs2 - objs1)} new chunk objects')
        if list(s2.chunks) != list(s1.chunks):
            return False, 'second snapshot references a different chunk list'
        return True, ''


def e_dedup_rate(k: int) -> bool:
    """A second snapshot of unchanged data uploads no chunk whatever rate limits the two runs use (chunk boundaries must not
    depend on the throttling parameters), for files larger than every block size derived from the limit.
    pre: shard(4 * 2 * 5 * 2 * 2)[0] <= k < shard(4 * 2 * 5 * 2 * 2)[1]
    post: _
    """
    si, r1, r2, ui, ci = digits(k, [4, 2, 5, 2, 2])
    with NoTracing():
        u1, u2 = [('A', 'A'), ('A', 'B')][ui]
        ok, msg = dedup_rate_case(si, r1, r2, u1, u2, [1, 3][ci])
        tick('e_dedup_rate', [BIG_SIZES[si], RATES1[r1], RATES2[r2], u1, u2, [1, 3][ci]])
        if not ok:
            _say(msg)
        return ok


def e_dedup_hist(k: int) -> bool:
    """After any 3 snapshots (3 file sets x 3 users) + clean by each family: chunk objects of a family are exactly the
    distinct chunks its live snapshots reference, and a 4th snapshot repeating the 1st uploads nothing.
    pre: shard(9 * 9 * 9)[0] <= k < shard(9 * 9 * 9)[1]
    post: _
    """
    c0, c1, c2 = digits(k, [9, 9, 9])
    with NoTracing():
        with world.scratch('c07h') as d:
            h = History(d, encrypted=True)
            ok, msg = True, ''
            for c in (c0, c1, c2):
                h.snapshot(OPS[c][1], OPS[c][2])
            for fam, u in ((0, 'A'), (1, 'C')):
                want = {h.repos[s['owner']]._chunk_digest_to_location(dg) for s in h.snaps if h.U.family(s['owner']) == fam for dg in s['chunks']}
                have = {k2 for k2 in h.be.objs if k2.startswith('data/')}
                other = {h.repos[s['owner']]._chunk_digest_to_location(dg) for s in h.snaps if h.U.family(s['owner']) != fam for dg in s['chunks']}
                if have - other != want:
                    ok, msg = False, f'family {fam}: {len(have - other)} objects, {len(want)} distinct chunks referenced'
            before = h.be.counts['upload_stream']
            h.snapshot(OPS[c0][1], OPS[c0][2])
            if ok and h.be.counts['upload_stream'] != before:
                ok, msg = False, 'repeating the first snapshot uploaded chunk payload'
            tick('e_dedup_hist', [OPS[c0], OPS[c1], OPS[c2]])
            if not ok:
                _say(OPS[c0], OPS[c1], OPS[c2], msg)
            return ok


def e_dedup_ops(k: int) -> bool:
    """Histories of snapshots, deletes and cleans (long-lived clients for snapshots, another client object of the same user
    for destructive commands on odd vectors): every chunk a live snapshot references is stored, and after a clean by each
    family the chunk objects are precisely the distinct chunks referenced.
    pre: shard(15 * 15 * 15)[0] <= k < shard(15 * 15 * 15)[1] and k % 2 == 0
    post: _
    """
    c0, c1, c2 = digits(k, [15, 15, 15])
    with NoTracing():
        with world.scratch('c07o') as d:
            h = History(d, encrypted=True)
            h.fresh_destructive = (c0 + c1 + c2) % 2 == 1
            h.confirm = (c0 + 2 * c1 + c2) % 3 == 0       # a third of the histories delete through the confirmation prompt
            ok, msg = True, ''
            try:
                for c in (0, c0, c1, c2, 0):
                    op, u, fs = OPS[c]
                    if op == 'snap':
                        h.snapshot(u, fs)
                    elif op == 'del':
                        h.delete_latest(u, n=2 if (c0 + c2) % 3 == 0 else 1)      # sometimes two snapshots in one delete call
                    else:
                        h.clean(u)
            except Exception as e:
                ok, msg = False, f'command raised {e!r}'
            if ok:
                alive = [s for s in h.snaps if s['alive']]
                for s in alive:
                    for dg in s['chunks']:
                        if h.repos[s['owner']]._chunk_digest_to_location(dg) not in h.be.objs:
                            ok, msg = False, f'chunk referenced by live snapshot of {s["owner"]} is not stored'
                if ok and OPS[c2][0] == 'del':
                    # the history ended with delete + a final snapshot of set 0 by A: nothing but referenced chunks and
                    # orphans of EARLIER interrupted work may remain; there was none, so objects == referenced already
                    want0 = {h.repos[s['owner']]._chunk_digest_to_location(dg) for s in alive for dg in s['chunks']}
                    have0 = {k2 for k2 in h.be.objs if k2.startswith('data/')}
                    if have0 != want0:
                        ok, msg = False, f'after delete: {len(have0)} chunk objects stored, {len(want0)} distinct chunks referenced (no clean needed in a crash-free history)'
                fresh_repo(h.U, 'A', h.be) and h.run(fresh_repo(h.U, 'A', h.be).clean())
                h.run(fresh_repo(h.U, 'C', h.be).clean())
                want = {h.repos[s['owner']]._chunk_digest_to_location(dg) for s in alive for dg in s['chunks']}
                have = {k2 for k2 in h.be.objs if k2.startswith('data/')}
                if ok and have != want:
                    ok, msg = False, f'{len(have)} chunk objects stored, {len(want)} distinct chunks referenced'
            tick('e_dedup_ops', [OPS[c0], OPS[c1], OPS[c2]])
            if not ok:
                _say(OPS[c0], OPS[c1], OPS[c2], msg)
            return ok
