"""C12 - transient backend faults are masked, persistent ones end in a bounded error (local backend, stream wrappers,
re-authentication wrapper)."""
from __future__ import annotations

import asyncio
import io
import os
import shutil as _shutil
import time as _time
from pathlib import Path

from crosshair.tracers import NoTracing

from vt import rt, world
from vt.core import digits, shard, tick

import backoff._sync as _bsync
import replicat.backends.local as LB
import replicat.utils as U
from replicat import exceptions

REPLAY = bool(os.environ.get('VT_REPLAY'))
CHUNK = 8


def _say(*a):
    if REPLAY:
        print('DETAIL:', *a)


class _NoSleepTime:
    def sleep(self, s):
        _NoSleepTime.slept.append(s)

    def __getattr__(self, n):
        return getattr(_time, n)


_NoSleepTime.slept = []
_bsync.time = _NoSleepTime()      # backoff waits take no wall time


# =========================================================================== local backend
UP_POINTS = ['mktemp', 'open', 'write0', 'write1', 'write_last', 'after_copy', 'replace']
DOWN_POINTS = ['open', 'truncate', 'read0', 'read1', 'write1', 'after_copy']


class Faults:
    def __init__(self, point, count):
        self.point, self.left, self.attempts = point, count, 0

    def hit(self, p):
        if p == self.point and self.left > 0:
            self.left -= 1
            raise OSError(f'injected fault at {p}')


def _patched(fl: Faults):
    """Namespace substitutes for replicat.backends.local that raise OSError at the chosen point of the first `count`
    attempts. Returns (Path, shutil, NamedTemporaryFile) replacements."""
    real_ntf = LB_REAL[2]

    class PPath(type(Path())):
        def open(self, mode='r', *a, **k):
            fl.hit('open')
            return super().open(mode, *a, **k)

        def replace(self, target):
            fl.hit('replace')
            return super().replace(target)

        def write_bytes(self, data):
            fl.hit('write0')
            with open(self, 'wb') as f:
                f.write(data[:len(data) // 2])
                fl.hit('write1')
                f.write(data[len(data) // 2:])
            fl.hit('write_last')
            fl.hit('after_copy')
            return len(data)

    class PShutil:
        @staticmethod
        def copyfileobj(src, dst, length=0):
            i = 0
            while True:
                fl.hit('read%d' % min(i, 1))
                buf = src.read(length)
                if not buf:
                    break
                fl.hit('write%d' % min(i, 1))
                dst.write(buf)
                i += 1
            fl.hit('write_last')
            fl.hit('after_copy')

    def PTemp(**kw):
        fl.hit('mktemp')
        return real_ntf(**kw)
    return PPath, PShutil, PTemp


LB_REAL = (LB.Path, LB.shutil, LB.NamedTemporaryFile)


class CountingStream(io.BytesIO):
    """Payload stream that remembers where every retry started reading."""

    def __init__(self, data):
        super().__init__(data)
        self.starts = []
        self._fresh = True

    def read(self, n=-1):
        if self._fresh:
            self.starts.append(self.tell())
            self._fresh = False
        return super().read(n)

    def seek(self, pos, whence=0):
        self._fresh = True
        return super().seek(pos, whence)


def local_fault_case(op, point_i, count, size_i, wrapped):
    size = [0, 1, CHUNK, 3 * CHUNK + 2][size_i]
    data = bytes((i * 13 + 5) % 251 for i in range(size))
    name = 'data/ab/cd-ef'
    with world.scratch('c12') as d:
        root = d / 'repo'
        root.mkdir()
        old = b'previous content'
        if op.startswith('down') or op == 'upload_over':
            (root / 'data/ab').mkdir(parents=True)
            (root / name).write_bytes(data if op.startswith('down') else old)
        points = DOWN_POINTS if op.startswith('down') else UP_POINTS
        fl = Faults(points[point_i % len(points)], count)
        LB.Path, LB.shutil, LB.NamedTemporaryFile = _patched(fl)
        _NoSleepTime.slept.clear()
        try:
            be = LB.Local(str(root))
            raised = None
            sink = None
            try:
                if op in ('upload', 'upload_over'):
                    be.upload(name, data)
                elif op == 'upload_stream':
                    raw = CountingStream(data)
                    stream = raw
                    if wrapped:
                        lim = U.RateLimitedIO(10 ** 9)
                        stream = U.TQDMIOReader(lim.wrap(raw), desc='x', total=len(data), position=0, disable=True)
                    be.upload_stream(name, stream, len(data), CHUNK)
                elif op == 'download':
                    got = be.download(name)
                else:
                    sink = io.BytesIO()
                    stream = sink
                    if wrapped:
                        lim = U.RateLimitedIO(10 ** 9)
                        stream = U.TQDMIOWriter(lim.wrap(sink), desc='x', total=None, position=0, disable=True)
                    be.download_stream(name, stream, CHUNK)
            except OSError as e:
                raised = e
        finally:
            LB.Path, LB.shutil, LB.NamedTemporaryFile = LB_REAL
        reachable = fl.left < count or count == 0       # was the fault point ever reached?
        used = count - fl.left
        be2 = LB.Local(str(root))
        leftovers = [p.name for p in (root / 'data/ab').glob('*') if p.name != 'cd-ef'] if (root / 'data/ab').exists() else []
        if leftovers:
            return False, f'{op}: leftover files after the operation: {leftovers}'
        if count >= 5 and used >= 5:
            if raised is None:
                return False, f'{op}: 5 consecutive faults at {fl.point} but no error'
            if used != 5:
                return False, f'{op}: persistent fault at {fl.point}: {used} attempts instead of 5'
            if op in ('upload', 'upload_stream') and be2.exists(name):
                return False, f'{op}: persistent fault but an object is visible'
            if op == 'upload_over' and be2.download(name) != old:
                return False, f'{op}: persistent fault damaged the previous object'
            return True, ''
        if raised is not None:
            return False, f'{op}: {used} transient fault(s) at {fl.point} (< 5) ended in {raised!r}'
        if op.startswith('upload'):
            if not be2.exists(name) or be2.download(name) != data:
                stored = be2.download(name) if be2.exists(name) else None
                return False, f'{op}: after {used} transient fault(s) at {fl.point} the stored object is {None if stored is None else len(stored)} bytes, expected {len(data)}'
            if op == 'upload_stream' and any(s != 0 for s in raw.starts):
                return False, f'{op}: a retry started reading the payload at offset {raw.starts}'
        elif op == 'download':
            if got != data:
                return False, 'download returned different bytes'
        else:
            if sink.getvalue() != data:
                return False, f'download_stream after {used} transient fault(s) at {fl.point}: sink holds {len(sink.getvalue())} bytes, expected {len(data)}'
        return True, ''


OPS = ['upload', 'upload_over', 'upload_stream', 'download', 'download_stream']


def e_local_faults(k: int) -> bool:
    """
    pre: shard(5 * 7 * 7 * 4 * 2)[0] <= k < shard(5 * 7 * 7 * 4 * 2)[1]
    post: _
    """
    opi, point_i, count, size_i, wrapped = digits(k, [5, 7, 7, 4, 2])
    with NoTracing():
        ok, msg = local_fault_case(OPS[opi], point_i, count, size_i, bool(wrapped))
        tick('e_local_faults', [OPS[opi], point_i, count, size_i, wrapped])
        if not ok:
            _say(OPS[opi], point_i, count, size_i, wrapped, msg)
        return ok


# =========================================================================== wrappers forward seek/truncate (CrossHair, symbolic ints)
class _Rec:
    def __init__(self, rets):
        self.calls, self.rets = [], list(rets)

    def seek(self, *a, **k):
        self.calls.append(('seek', a, k))
        return self.rets.pop(0)

    def truncate(self, *a, **k):
        self.calls.append(('truncate', a, k))
        return self.rets.pop(0)

    def read(self, n=-1):
        self.calls.append(('read', n))
        return self.rets.pop(0)

    def write(self, b):
        self.calls.append(('write', b))
        return self.rets.pop(0)


class _Tracker:
    def __init__(self, **k):
        self.ops = []

    def reset(self, *a):
        self.ops.append(('reset', a))

    def update(self, n):
        self.ops.append(('update', n))

    def close(self):
        pass


def s_tqdm_forward(pos: int, whence: int, sret: int, size: int, tret: int, data: bytes, wret: int) -> bool:
    """TQDMIOReader/Writer: seek/truncate/read/write reach the wrapped stream with unchanged arguments and their
    results come back unchanged.
    pre: len(data) <= 3 and 0 <= sret and 0 <= tret and 0 <= wret <= 3
    post: _
    """
    saved = U.tqdm
    U.tqdm = _Tracker
    try:
        f = _Rec([sret, tret, data, wret])
        r = U.TQDMIOReader(f, desc='d', total=10, position=0, disable=True)
        a = r.seek(pos, whence)
        b = r.truncate(size)
        c = r.read(5)
        w = U.TQDMIOWriter(f, desc='d', total=None, position=0, disable=True)
        e = w.write(data)
    finally:
        U.tqdm = saved
    with NoTracing():
        tick('s_tqdm', None)
    return (a, b, c, e) == (sret, tret, data, wret) and f.calls == [('seek', (pos, whence), {}), ('truncate', (size,), {}), ('read', 5), ('write', data)]


# =========================================================================== requires_auth
class _AuthBackend:
    def __init__(self, fail_times, persistent=False):
        self.left, self.persistent = fail_times, persistent
        self.auth_calls, self.calls = 0, 0

    def authenticate(self):
        self.auth_calls += 1

    @U.requires_auth
    def op(self, x):
        self.calls += 1
        if self.left > 0:
            self.left -= 1
            raise exceptions.AuthRequired
        return ('done', x)


class _AsyncAuthBackend:
    def __init__(self, fail_times):
        self.left = fail_times
        self.auth_calls, self.calls = 0, 0

    async def authenticate(self):
        self.auth_calls += 1

    @U.requires_auth
    async def op(self, x):
        self.calls += 1
        if self.left > 0:
            self.left -= 1
            raise exceptions.AuthRequired
        return ('done', x)


def e_auth(k: int) -> bool:
    """Expired authorisation `a` times in a row (a = 0..6), sync and async: the call is repeated after re-authentication and
    delivers its result once; authenticate is called a+1 times.
    pre: 0 <= k < 14
    post: _
    """
    a, is_async = digits(k, [7, 2])
    with NoTracing():
        if is_async:
            be = _AsyncAuthBackend(a)
            res = asyncio.run(be.op(7))
        else:
            be = _AuthBackend(a)
            res = be.op(7)
        tick('e_auth', [a, is_async])
        return res == ('done', 7) and be.calls == a + 1 and be.auth_calls == a + 1
