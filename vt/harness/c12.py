"""C12 - transient backend faults are masked, persistent ones end in a bounded error (local backend, stream wrappers,
re-authentication wrapper)."""
from __future__ import annotations

import asyncio
import io
import os
import shutil as _shutil
import time as _time
from pathlib import Path

from crosshair.tracers import NoTracing

from vt import rt, world
from vt.core import digits, shard, tick

import backoff._sync as _bsync
import replicat.backends.local as LB
import replicat.utils as U
from replicat import exceptions

REPLAY = bool(os.environ.get('VT_REPLAY'))
CHUNK = 8


def _say(*a):
    if REPLAY:
        print('DETAIL:', *a)


class _NoSleepTime:
    def sleep(self, s):
        _NoSleepTime.slept.append(s)

    def __getattr__(self, n):
        return getattr(_time, n)


_NoSleepTime.slept = []
_bsync.time = _NoSleepTime()      # backoff waits take no wall time


# =========================================================================== local backend
UP_POINTS = ['mktemp', 'open', 'write0', 'write1', 'write_last', 'after_copy', 'replace']
DOWN_POINTS = ['open', 'truncate', 'read0', 'read1', 'write1', 'after_copy']


class Faults:
    def __init__(self, point, count, exc=OSError):
        self.point, self.left, self.attempts, self.exc = point, count, 0, exc

    def hit(self, p):
        if p == self.point and self.left > 0:
            self.left -= 1
            raise self.exc(5, f'injected fault at {p}')


def _patched(fl: Faults):
    """Namespace substitutes for replicat.backends.local that raise OSError at the chosen point of the first `count`
    attempts. Returns (Path, shutil, NamedTemporaryFile) replacements."""
    real_ntf = LB_REAL[2]

    class PPath(type(Path())):
        def open(self, mode='r', *a, **k):
            fl.hit('open')
            return super().open(mode, *a, **k)

        def replace(self, target):
            fl.hit('replace')
            return super().replace(target)

        def write_bytes(self, data):
            fl.hit('write0')
            with open(self, 'wb') as f:
                f.write(data[:len(data) // 2])
                fl.hit('write1')
                f.write(data[len(data) // 2:])
            fl.hit('write_last')
            fl.hit('after_copy')
            return len(data)

    class PShutil:
        @staticmethod
        def copyfileobj(src, dst, length=0):
            i = 0
            while True:
                fl.hit('read%d' % min(i, 1))
                buf = src.read(length)
                if not buf:
                    break
                fl.hit('write%d' % min(i, 1))
                dst.write(buf)
                i += 1
            fl.hit('write_last')
            fl.hit('after_copy')

    def PTemp(**kw):
        fl.hit('mktemp')
        return real_ntf(**kw)
    return PPath, PShutil, PTemp


LB_REAL = (LB.Path, LB.shutil, LB.NamedTemporaryFile)


class CountingStream(io.BytesIO):
    """Payload stream that remembers where every retry started reading."""

    def __init__(self, data):
        super().__init__(data)
        self.starts = []
        self._fresh = True

    def read(self, n=-1):
        if self._fresh:
            self.starts.append(self.tell())
            self._fresh = False
        return super().read(n)

    def seek(self, pos, whence=0):
        self._fresh = True
        return super().seek(pos, whence)


EXCS = [OSError, FileNotFoundError, PermissionError]       # a concurrent clean() can make ENOENT transient on write paths


def local_fault_case(op, point_i, count, size_i, wrapped, exc_i=0):
    size = [0, 1, CHUNK, 3 * CHUNK + 2][size_i]
    data = bytes((i * 13 + 5) % 251 for i in range(size))
    name = 'data/ab/cd-ef'
    with world.scratch('c12') as d:
        root = d / 'repo'
        root.mkdir()
        old = b'previous content'
        if op.startswith('down') or op == 'upload_over':
            (root / 'data/ab').mkdir(parents=True)
            (root / name).write_bytes(data if op.startswith('down') else old)
        points = DOWN_POINTS if op.startswith('down') else UP_POINTS
        exc = EXCS[exc_i] if not op.startswith('down') else OSError      # (a missing file is a legitimate permanent error for downloads)
        fl = Faults(points[point_i % len(points)], count, exc)
        LB.Path, LB.shutil, LB.NamedTemporaryFile = _patched(fl)
        _NoSleepTime.slept.clear()
        try:
            be = LB.Local(str(root))
            raised = None
            sink = None
            try:
                if op in ('upload', 'upload_over'):
                    be.upload(name, data)
                elif op == 'upload_stream':
                    raw = CountingStream(data)
                    stream = raw
                    if wrapped:
                        lim = U.RateLimitedIO(10 ** 9)
                        stream = U.TQDMIOReader(lim.wrap(raw), desc='x', total=len(data), position=0, disable=True)
                    be.upload_stream(name, stream, len(data), CHUNK)
                elif op == 'download':
                    got = be.download(name)
                else:
                    sink = io.BytesIO()
                    stream = sink
                    if wrapped:
                        lim = U.RateLimitedIO(10 ** 9)
                        stream = U.TQDMIOWriter(lim.wrap(sink), desc='x', total=None, position=0, disable=True)
                    be.download_stream(name, stream, CHUNK)
            except OSError as e:
                raised = e
        finally:
            LB.Path, LB.shutil, LB.NamedTemporaryFile = LB_REAL
        reachable = fl.left < count or count == 0       # was the fault point ever reached?
        used = count - fl.left
        be2 = LB.Local(str(root))
        leftovers = [p.name for p in (root / 'data/ab').glob('*') if p.name != 'cd-ef'] if (root / 'data/ab').exists() else []
        if leftovers:
            return False, f'{op}: leftover files after the operation: {leftovers}'
        if count >= 5 and used >= 5:
            if raised is None:
                return False, f'{op}: 5 consecutive faults at {fl.point} but no error'
            if used != 5:
                return False, f'{op}: persistent fault at {fl.point}: {used} attempts instead of 5'
            if op in ('upload', 'upload_stream') and be2.exists(name):
                return False, f'{op}: persistent fault but an object is visible'
            if op == 'upload_over' and be2.download(name) != old:
                return False, f'{op}: persistent fault damaged the previous object'
            return True, ''
        if raised is not None:
            return False, f'{op}: {used} transient fault(s) at {fl.point} (< 5) ended in {raised!r}'
        if op.startswith('upload'):
            if not be2.exists(name) or be2.download(name) != data:
                stored = be2.download(name) if be2.exists(name) else None
                return False, f'{op}: after {used} transient fault(s) at {fl.point} the stored object is {None if stored is None else len(stored)} bytes, expected {len(data)}'
            if op == 'upload_stream' and any(s != 0 for s in raw.starts):
                return False, f'{op}: a retry started reading the payload at offset {raw.starts}'
        elif op == 'download':
            if got != data:
                return False, 'download returned different bytes'
        else:
            if sink.getvalue() != data:
                return False, f'download_stream after {used} transient fault(s) at {fl.point}: sink holds {len(sink.getvalue())} bytes, expected {len(data)}'
        return True, ''


OPS = ['upload', 'upload_over', 'upload_stream', 'download', 'download_stream']


def e_local_faults(k: int) -> bool:
    """
    pre: shard(5 * 7 * 7 * 4 * 2)[0] <= k < shard(5 * 7 * 7 * 4 * 2)[1]
    post: _
    """
    opi, point_i, count, size_i, wrapped = digits(k, [5, 7, 7, 4, 2])
    with NoTracing():
        ok, msg = local_fault_case(OPS[opi], point_i, count, size_i, bool(wrapped), exc_i=(point_i + count + size_i) % 3)
        tick('e_local_faults', [OPS[opi], point_i, count, size_i, wrapped])
        if not ok:
            _say(OPS[opi], point_i, count, size_i, wrapped, msg)
        return ok


# =========================================================================== wrappers forward seek/truncate (CrossHair, symbolic ints)
class _Rec:
    def __init__(self, rets):
        self.calls, self.rets = [], list(rets)

    def seek(self, *a, **k):
        self.calls.append(('seek', a, k))
        return self.rets.pop(0)

    def truncate(self, *a, **k):
        self.calls.append(('truncate', a, k))
        return self.rets.pop(0)

    def read(self, n=-1):
        self.calls.append(('read', n))
        return self.rets.pop(0)

    def write(self, b):
        self.calls.append(('write', b))
        return self.rets.pop(0)


class _Tracker:
    def __init__(self, **k):
        self.ops = []

    def reset(self, *a):
        self.ops.append(('reset', a))

    def update(self, n):
        self.ops.append(('update', n))

    def close(self):
        pass


def s_tqdm_forward(pos: int, whence: int, sret: int, size: int, tret: int, data: bytes, wret: int) -> bool:
    """TQDMIOReader/Writer: seek/truncate/read/write reach the wrapped stream with unchanged arguments and their
    results come back unchanged.
    pre: len(data) <= 3 and 0 <= sret and 0 <= tret and 0 <= wret <= 3
    post: _
    """
    saved = U.tqdm
    U.tqdm = _Tracker
    try:
        f = _Rec([sret, tret, data, wret])
        r = U.TQDMIOReader(f, desc='d', total=10, position=0, disable=True)
        a = r.seek(pos, whence)
        b = r.truncate(size)
        c = r.read(5)
        w = U.TQDMIOWriter(f, desc='d', total=None, position=0, disable=True)
        e = w.write(data)
    finally:
        U.tqdm = saved
    with NoTracing():
        tick('s_tqdm', None)
    return (a, b, c, e) == (sret, tret, data, wret) and f.calls == [('seek', (pos, whence), {}), ('truncate', (size,), {}), ('read', 5), ('write', data)]


# =========================================================================== requires_auth
class _AuthBackend:
    def __init__(self, fail_times, persistent=False):
        self.left, self.persistent = fail_times, persistent
        self.auth_calls, self.calls = 0, 0

    def authenticate(self):
        self.auth_calls += 1

    @U.requires_auth
    def op(self, x):
        self.calls += 1
        if self.left > 0:
            self.left -= 1
            raise exceptions.AuthRequired
        return ('done', x)


class _AsyncAuthBackend:
    def __init__(self, fail_times):
        self.left = fail_times
        self.auth_calls, self.calls = 0, 0

    async def authenticate(self):
        self.auth_calls += 1

    @U.requires_auth
    async def op(self, x):
        self.calls += 1
        if self.left > 0:
            self.left -= 1
            raise exceptions.AuthRequired
        return ('done', x)


def e_auth(k: int) -> bool:
    """Expired authorisation `a` times in a row (a = 0..6), sync and async: the call is repeated after re-authentication and
    delivers its result once; authenticate is called a+1 times.
    pre: 0 <= k < 14
    post: _
    """
    a, is_async = digits(k, [7, 2])
    with NoTracing():
        if is_async:
            be = _AsyncAuthBackend(a)
            res = asyncio.run(be.op(7))
        else:
            be = _AuthBackend(a)
            res = be.op(7)
        tick('e_auth', [a, is_async])
        return res == ('done', 7) and be.calls == a + 1 and be.auth_calls == a + 1


# =========================================================================== S3-compatible and B2 adapters against fake services
from vt import fakes  # noqa: E402

ROPS = ['upload', 'upload_stream', 'download', 'download_stream', 'exists', 'delete', 'list']
RFAULTS = ['503', '500', '429', 'connect', 'drop', '401']


COUNTS = [0, 1, 2, 3, 5, 10 ** 9]


def remote_fault_case(kind, op, fault, count, size_i, skip):
    size = [0, 5, 3 * CHUNK + 2][size_i]
    data = bytes((i * 11 + 1) % 251 for i in range(size))
    name = 'data/ab/cd-ef'
    svc = fakes.FakeS3(page=2) if kind == 's3' else fakes.FakeB2(page=2)
    be = fakes.s3_backend(svc) if kind == 's3' else fakes.b2_backend(svc)
    loop = rt.MiniLoop(budget=3_000_000)
    svc.objs['other/1'] = b'o1'
    svc.objs['other/2'] = b'o2'
    svc.objs['other/3'] = b'o3'
    if op in ('download', 'download_stream', 'exists', 'delete'):
        svc.objs[name] = data

    def is_op_request(r):
        u = str(r.url)
        if 'authorize_account' in u or 'list_buckets' in u:
            return False
        return True
    if fault == '401':
        if kind == 's3':
            return True, 'n/a'
    elif fault == 'drop' and (op not in ('download', 'download_stream') or size <= 16):      # the fake drops after one 16-byte piece
        return True, 'n/a'
    status = {'503': 503, '500': 500, '429': 429, '401': 401}.get(fault, 503)
    fkind = {'connect': 'connect', 'drop': 'drop'}.get(fault, 'status')
    plan = fakes.FaultPlan()
    if True:
        plan = fakes.FaultPlan(kind=fkind, status=status, match=is_op_request, skip=skip, count=count,
                               headers={'retry-after': '0'} if fault == '429' else {}, drop_after=1,
                               body_pieces=[10 ** 6, 1][skip] if op == 'upload_stream' else 10 ** 6)
    raw = CountingStream(data)
    sink = io.BytesIO()
    result = {}

    async def go():
        if kind == 'b2':
            await be.exists('warm-up')           # authorise and find the bucket first, then arm the faults
        svc.plan = plan
        if op == 'upload':
            await be.upload(name, data)
        elif op == 'upload_stream':
            await be.upload_stream(name, raw, len(data), CHUNK)
        elif op == 'download':
            result['got'] = await be.download(name)
        elif op == 'download_stream':
            await be.download_stream(name, sink, CHUNK)
            result['got'] = sink.getvalue()
        elif op == 'exists':
            result['got'] = await be.exists(name)
        elif op == 'delete':
            await be.delete(name)
        else:
            result['got'] = sorted([x async for x in be.list_files('other/')])
    n0 = len(svc.requests)
    raised = None
    try:
        loop.run_until_complete(go())
    except RecursionError as e:
        raised = e
    except fakes.RequestStorm:
        return False, f'{kind} {op}: {fault} x{count}: more than {svc.max_requests} requests for one operation - retries are not bounded'
    except Exception as e:
        raised = e
    nreq = len(svc.requests) - n0
    if svc.short_bodies:
        return False, f'{kind} {op}: a request declared {svc.short_bodies[0][2]} bytes but sent {svc.short_bodies[0][1]}: the payload was not re-read from its start after a fault'
    used = plan.hits
    if isinstance(raised, RecursionError):
        return False, f'{kind} {op}: {fault} x{count}: unbounded re-authentication recursion after {nreq} requests'
    INF = 10 ** 9
    if count >= INF and used > 0:
        # the fault never goes away: a bounded number of attempts, then an error; nothing wrong left behind
        if raised is None:
            return False, f'{kind} {op}: permanent {fault} fault but the operation reported success'
        if nreq > 60:
            return False, f'{kind} {op}: permanent {fault}: {nreq} requests before giving up'
        if op in ('upload', 'upload_stream') and svc.objs.get(name) not in (None, data):
            return False, f'{kind} {op}: permanent fault left a wrong object'
        return True, ''
    if raised is not None:
        if used > 3 and nreq <= 60:
            return True, ''          # more consecutive faults than the retry budget: a bounded error is the specified outcome
        return False, f'{kind} {op}: {used} transient {fault} fault(s) ended in {raised!r} after {nreq} requests'
    live = svc.objs if kind == 's3' else svc.live()
    if op in ('upload', 'upload_stream'):
        if live.get(name) != data:
            return False, f'{kind} {op}: after {used} transient {fault} fault(s) the stored object has {None if live.get(name) is None else len(live[name])} bytes, expected {len(data)}'
        if op == 'upload_stream' and any(s != 0 for s in raw.starts):
            return False, f'{kind} {op}: a retry started reading the payload at {raw.starts}'
    elif op in ('download', 'download_stream'):
        if result['got'] != data:
            return False, f'{kind} {op}: after {used} transient {fault} fault(s) delivered {len(result["got"])} bytes, expected {len(data)}'
    elif op == 'exists':
        if result['got'] is not True:
            return False, f'{kind} exists: wrong answer after transient faults'
    elif op == 'delete':
        if name in live:
            return False, f'{kind} delete: object still there'
    else:
        if result['got'] != ['other/1', 'other/2', 'other/3']:
            return False, f'{kind} list: {result["got"]} after {used} transient fault(s) (pages of 2)'
    return True, ''


def known_f10(args):
    """B2: a 5xx or 401 answer that never goes away, on any operation."""
    ki, opi, fi, count, size_i, skip = _rdecode(args['k'])
    return ki == 1 and RFAULTS[fi] in ('503', '500', '401') and COUNTS[count] >= 10 ** 9


def _rdecode(k):
    out = []
    for r in [2, 7, 6, 6, 3, 2]:
        out.append(k % r)
        k //= r
    return out


def e_remote_faults(k: int) -> bool:
    """
    pre: shard(2 * 7 * 6 * 6 * 3 * 2)[0] <= k < shard(2 * 7 * 6 * 6 * 3 * 2)[1]
    post: _
    """
    ki, opi, fi, count, size_i, skip = digits(k, [2, 7, 6, 6, 3, 2])
    with NoTracing():
        excl = os.environ.get('VT_EXCLUDE', '').split(',')
        if 'F10' in excl and ki == 1 and RFAULTS[fi] in ('503', '500', '401') and COUNTS[count] >= 10 ** 9:
            return True
        ok, msg = remote_fault_case(['s3', 'b2'][ki], ROPS[opi], RFAULTS[fi], COUNTS[count], size_i, skip)
        tick('e_remote_faults', [['s3', 'b2'][ki], ROPS[opi], RFAULTS[fi], count, size_i, skip])
        if not ok:
            _say(msg)
        return ok


# =========================================================================== listing under directory-scan faults (local)
def local_list_fault_case(which, count, prefix_i):
    """An OSError while scanning the `which`-th directory of a listing (transient `count` times): the listing is either
    complete or the operation raises - a silently incomplete listing would make clean/delete treat live objects as absent."""
    import replicat.utils.fs as FS
    names = ['data/aa/bb/x1', 'data/aa/cc/x2', 'data/dd/ee/x3', 'snapshots/ff/y1', 'snapshots/gg/y2', 'top']
    prefix = ['', 'data/', 'snapshots/'][prefix_i]
    with world.scratch('c12l') as d:
        root = d / 'repo'
        for n in names:
            (root / n).parent.mkdir(parents=True, exist_ok=True)
            (root / n).write_bytes(b'x')
        state = {'n': 0, 'left': count}
        real = os.scandir

        def faulty(path):
            i = state['n']
            state['n'] += 1
            if i == which and state['left'] > 0:
                state['left'] -= 1
                raise OSError(5, 'injected I/O error', str(path))
            return real(path)

        # patch os.scandir itself: whatever walks the tree (a hand-written stack, os.walk, ...) goes through it
        saved = os.scandir
        os.scandir = faulty
        try:
            be = LB.Local(str(root))
            try:
                got = sorted(be.list_files(prefix))
                raised = None
            except OSError as e:
                got, raised = None, e
        finally:
            os.scandir = saved
        want = sorted(n for n in names if n.startswith(prefix))
        if raised is not None:
            return True, 'raised'
        if got != want:
            return False, f'list_files({prefix!r}) returned {got} although scanning a directory failed: expected {want} or an error'
        return True, 'complete'


def e_local_list_faults(k: int) -> bool:
    """
    pre: 0 <= k < 10 * 3 * 3
    post: _
    """
    which, ci, pi = digits(k, [10, 3, 3])
    with NoTracing():
        ok, msg = local_list_fault_case(which, [1, 2, 9][ci], pi)
        tick('e_local_list_faults', [which, [1, 2, 9][ci], pi, msg[:9]])
        if not ok:
            _say(msg)
        return ok


# --------------------------------------------------------------------------- B2: a fault tied to the upload URL (C12_f)
def b2_pod_case(op, size_i, dead_n, after, spelling):
    """The first `dead_n` upload URLs B2 hands out name pods that stop answering (the connection breaks after `after` pieces
    of the body, every time); b2_get_upload_url keeps handing out healthy pods afterwards. That is `dead_n` transient faults,
    inside the retry budget: the upload must succeed with the exact bytes, the payload re-read from its start."""
    size = [0, 5, 3 * CHUNK + 2, 20 * CHUNK][size_i]
    data = bytes((i * 11 + 1) % 251 for i in range(size))
    name = 'data/ab/cd-pod'
    svc = fakes.FakeB2(page=2, restricted=spelling >= 2)
    be = fakes.b2_backend(svc, by_id=spelling % 2 == 1)
    loop = rt.MiniLoop(budget=3_000_000)
    raw = CountingStream(data)

    async def go():
        await be.exists('warm-up')
        svc.dead_pod = lambda url: any(url.endswith(f'/pod{i}') for i in range(1, dead_n + 1))
        svc.dead_after = after
        if op == 0:
            await be.upload(name, data)
        else:
            await be.upload_stream(name, raw, len(data), CHUNK)
    try:
        loop.run_until_complete(go())
    except fakes.RequestStorm:
        return False, 'b2: request storm', svc.dead_hits
    except Exception as e:
        return False, (f"b2 {['upload', 'upload_stream'][op]}: the first {dead_n} upload pod(s) died after {after} body piece(s) and the operation failed with {e!r} "
                       f'after {svc.dead_hits} request(s) to dead pods, although new upload URLs name healthy pods'), svc.dead_hits
    if svc.short_bodies:
        return False, f'b2: a request declared {svc.short_bodies[0][2]} bytes but sent {svc.short_bodies[0][1]}', svc.dead_hits
    if svc.live().get(name) != data:
        return False, 'b2: stored object differs from the payload', svc.dead_hits
    return True, '', svc.dead_hits


def e_b2_pod(k: int) -> bool:
    """
    pre: 0 <= k < 2 * 4 * 3 * 3 * 2
    post: _
    """
    op, size_i, dn, after, sp = digits(k, [2, 4, 3, 3, 2])
    with NoTracing():
        ok, msg, hits = b2_pod_case(op, size_i, [1, 2, 3][dn], after, sp)
        tick('e_b2_pod', [op, size_i, dn, after, sp, hits])
        if not ok:
            _say(msg)
        return ok


# --------------------------------------------------------------------------- requires_auth when authenticate() itself fails (C09_f; found F15)
class _FlakyAuthSync:
    """Plain backend: authenticate() raises on the calls listed in `bad`; op() asks for re-authentication `expire` times."""

    def __init__(self, bad, expire):
        self.bad, self.left = set(bad), expire
        self.auth_calls = 0

    def authenticate(self):
        self.auth_calls += 1
        if self.auth_calls - 1 in self.bad:
            raise ConnectionError('injected: authorisation endpoint unreachable')

    @U.requires_auth
    def op(self, x):
        if self.left > 0:
            self.left -= 1
            raise exceptions.AuthRequired
        return ('done', x)


class _FlakyAuthAsync:
    def __init__(self, bad, expire):
        self.bad, self.left = set(bad), expire
        self.auth_calls = 0

    async def authenticate(self):
        self.auth_calls += 1
        if self.auth_calls - 1 in self.bad:
            raise ConnectionError('injected: authorisation endpoint unreachable')

    @U.requires_auth
    async def op(self, x):
        if self.left > 0:
            self.left -= 1
            raise exceptions.AuthRequired
        return ('done', x)


def auth_failure_case(is_async, bad_i, expire, nthreads):
    """authenticate() fails once (its first call, or a re-authentication): the affected call ends with that error - it does
    not hang - and the next call authenticates again and succeeds; with several threads nobody waits forever."""
    import threading
    bad = [[0], [1], [0, 1], []][bad_i]
    results = []

    def one_call(be, i):
        try:
            if is_async:
                results.append((i, asyncio.run(be.op(i))))
            else:
                results.append((i, be.op(i)))
        except ConnectionError as e:
            results.append((i, 'auth-error'))
        except Exception as e:
            results.append((i, repr(e)))
    be = _FlakyAuthAsync(bad, expire) if is_async else _FlakyAuthSync(bad, expire)
    # phase 1: `nthreads` concurrent calls; phase 2: one more call afterwards
    for phase, n in ((1, nthreads), (2, 1)):
        ts = [threading.Thread(target=one_call, args=(be, phase * 10 + i), daemon=True) for i in range(n)]
        for t in ts:
            t.start()
        for t in ts:
            t.join(8)
        if any(t.is_alive() for t in ts):
            return False, (f"{'coroutine' if is_async else 'plain'} backend, authenticate() failing on call(s) {bad}: a later call of a decorated method never returns "
                           f'(phase {phase}, {sum(t.is_alive() for t in ts)} of {n} thread(s) stuck waiting for the authorisation lock)')
    last = [r for i, r in results if i == 20]
    bad_results = [r for _, r in results if r != 'auth-error' and not (isinstance(r, tuple) and r[0] == 'done')]
    if bad_results:
        return False, f'unexpected outcome {bad_results[0]}'
    if len(bad) < 2 and expire == 0 and last != [('done', 20)] and not (bad and last == ['auth-error'] and be.auth_calls <= max(bad) + 1 and False):
        # once authenticate() works again, a call succeeds
        if not (last == ['auth-error'] and be.auth_calls - 1 in bad):
            return False, f'call after the failed authorisation returned {last}'
    return True, ''


def e_auth_failure(k: int) -> bool:
    """
    pre: 0 <= k < 2 * 4 * 2 * 2
    post: _
    """
    ia, bi, ex, nt = digits(k, [2, 4, 2, 2])
    with NoTracing():
        ok, msg = auth_failure_case(bool(ia), bi, ex, [1, 3][nt])
        tick('e_auth_failure', [ia, bi, ex, nt])
        if not ok:
            _say(msg)
        return ok
