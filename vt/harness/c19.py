"""C19 - option precedence: CLI over environment over selected profile over the file's default section over built-in default.

The real `replicat.__main__.main()` runs on a `sys.argv`, an `os.environ` and a configuration file built from the case vector;
only `_cmd_handler` (the part that would open the repository) and `_configure_logging` are replaced by a recorder, which calls the
real `_instantiate_backend` on a recording backend class registered as `replicat.backends.vtpc` (the documented way of adding a
custom backend)."""
from __future__ import annotations

import json
import os
import sys
import types
from pathlib import Path
from unittest import mock

from crosshair.tracers import NoTracing

from vt import rt, world
from vt.core import digits, shard, tick

import replicat.__main__ as M  # noqa: E402
from replicat import exceptions  # noqa: E402
from replicat.backends.base import Backend  # noqa: E402
from replicat.utils import cli, config  # noqa: E402

REPLAY = bool(os.environ.get('VT_REPLAY'))


def _say(*a):
    if REPLAY:
        print('DETAIL:', *a)


# ------------------------------------------------------------------------------------------------ recording custom backend
class Client(Backend, short_name='VTPC', display_name='recording backend of the C19 harness'):
    seen = None

    def __init__(self, connection_string, *, account, port=443, secure=True, token=None, label='std', ratio: float = 0.5):
        Client.seen = dict(connection_string=connection_string, account=account, port=port, secure=secure, token=token, label=label, ratio=ratio)

    async def exists(self, name):
        return False

    async def upload(self, name, data):
        pass

    async def upload_stream(self, name, stream, length):
        pass

    async def download(self, name):
        return b''

    async def download_stream(self, name, stream):
        pass

    async def list_files(self, prefix=''):
        if False:
            yield ''

    async def delete(self, name):
        pass

    async def close(self):
        pass


_mod = types.ModuleType('replicat.backends.vtpc')
_mod.Client = Client
Client.__module__ = 'replicat.backends.vtpc'
sys.modules['replicat.backends.vtpc'] = _mod


def ref_coerce(v):
    """Reference coercion of a backend option written as text (README: values are given as text on the command line and in the
    environment; a literal spelling - number, true/false/none in any case - means the literal)."""
    if not isinstance(v, str):
        return v                                # a TOML number / boolean already is the value
    low = v.lower()
    if low in ('true', 'false'):
        return low == 'true'
    if low == 'none':
        return None
    for conv in (int, float):
        try:
            if conv is int and not v.lstrip('+-').isdigit():
                continue
            return conv(v)
        except ValueError:
            pass
    return v


def toml_value(v):
    if isinstance(v, bool):
        return 'true' if v else 'false'
    if isinstance(v, (int, float)):
        return repr(v)
    return json.dumps(str(v))


MISSING = '<missing>'
ERR = '<error>'


def _fresh_parsers():
    """main() runs once per process: `set_defaults` on the sub-parsers writes through to the action objects they share with the
    module-level parent parsers, so a second main() in one interpreter would start from the first one's defaults. Every vector
    therefore starts from freshly built parsers (the module is re-executed, as a new process would)."""
    import importlib
    importlib.reload(cli)


def run_main(argv, env, cfg_text, d):
    """-> (observation dict | (ERR, kind))"""
    got = {}

    async def recorder(backend_type, connection_string, args, settings):
        ns = vars(args)
        got['backend'] = backend_type.__module__.rsplit('.', 1)[-1]
        got['connection_string'] = connection_string
        for k in ('password', 'key', 'concurrent', 'quiet', 'cache_directory'):
            got[k] = ns.get(k, MISSING)
        if backend_type is Client:
            Client.seen = None
            try:
                M._instantiate_backend(backend_type, connection_string, ns)
                got['kw'] = dict(Client.seen)
            except TypeError as e:
                got['kw'] = (MISSING, str(e)[:80])

    _fresh_parsers()
    cfgp = d / 'replicat.toml'
    full = ['replicat']
    if cfg_text is None:
        full_cfg = ['--ignore-config']
    else:
        cfgp.write_text(cfg_text, encoding='utf-8')
        full_cfg = ['--config', str(cfgp)]
    action, rest = argv[0], list(argv[1:])
    full += [action] + full_cfg + rest
    clean = {k: v for k, v in os.environ.items() if not (k.startswith('REPLICAT_') or k.startswith('VTPC_') or k.startswith('S3C_') or k.startswith('LOCAL_'))}
    clean.update(env)
    cwd = os.getcwd()
    try:
        with mock.patch.dict(os.environ, clean, clear=True), mock.patch.object(sys, 'argv', full), \
                mock.patch.object(M, '_cmd_handler', recorder), mock.patch.object(M, '_configure_logging', lambda level: None), rt.silence():
            os.chdir(d)
            try:
                M.main()
            except SystemExit as e:
                return (ERR, f'SystemExit({e.code})')
            except exceptions.InvalidConfig:
                return (ERR, 'InvalidConfig')
            except Exception as e:                  # whatever main() lets escape is reported as the outcome of the vector
                return (ERR, type(e).__name__)
    finally:
        os.chdir(cwd)
    return got


# ------------------------------------------------------------------------------------------------------ the option table
# name -> dict(levels: which sources exist, values: 4 distinguishable raw values [cli, env, profile, default] per variant,
#              render per source, observe(got) -> value, builtin expected, expect(raw) -> value)
CLI, ENV, PROF, DEF = 0, 1, 2, 3


def _pw_file(d, tag, data):
    p = d / f'pw_{tag}.bin'
    p.write_bytes(data)
    return str(p)


def option_table(d):
    T = {}
    T['repository'] = dict(src={CLI, ENV, PROF, DEF}, variants=[['vtpc:Acli', 'vtpc:Benv', 'vtpc:Cprof', 'vtpc:Ddef'], ['vtpc:x:y', 'vtpc:', 'vtpc:/a b', 'vtpc:ü']],
                           cli=lambda v: ['-r', v], env=lambda v: {'REPLICAT_REPOSITORY': v}, file=lambda v: {'repository': v},
                           observe=lambda g: (g['backend'], g['connection_string']), expect=lambda v: ('vtpc', v.split(':', 1)[1]),
                           builtin=('local', str(d)), needs_account=False)
    T['password'] = dict(src={CLI, ENV, PROF, DEF}, variants=[['pcli', 'penv', 'pprof', 'pdef'], ['a b', 'x=y', 'p#q', '"quoted"']],
                         cli=lambda v: ['-p', v], env=lambda v: {'REPLICAT_PASSWORD': v}, file=lambda v: {'password': v},
                         observe=lambda g: g['password'], expect=lambda v: v.encode(), builtin=None)
    T['password-file'] = dict(src={CLI, ENV, PROF, DEF}, variants=[[b'fcli\n', b'fenv', b'\xfffprof', b'fdef\r\n']],
                              cli=lambda v: ['-P', _pw_file(d, 'c', v)], env=lambda v: {'REPLICAT_PASSWORD': os.fsdecode(v)},
                              file=lambda v: {'password-file': _pw_file(d, 'f' + v.hex(), v)}, observe=lambda g: g['password'], expect=lambda v: v, builtin=None)
    T['key'] = dict(src={CLI, PROF, DEF}, variants=[[b'{"kcli": 1}', None, '{"kprof": 1}', '{"kdef": 1}']],
                    cli=lambda v: ['-K', _pw_file(d, 'k', v)], file=lambda v: {'key': v}, observe=lambda g: g['key'],
                    expect=lambda v: v if isinstance(v, bytes) else v.encode(), builtin=None)
    T['key-file'] = dict(src={CLI, PROF, DEF}, variants=[[b'KC', None, b'KP\n', b'KD\x00']],
                         cli=lambda v: ['-K', _pw_file(d, 'k', v)], file=lambda v: {'key-file': _pw_file(d, 'kf' + v.hex(), v)}, observe=lambda g: g['key'],
                         expect=lambda v: v, builtin=None)
    T['concurrent'] = dict(src={CLI, PROF, DEF}, variants=[['3', None, 7, 11], ['12', None, '8', '9'], ['1', None, 1, 2]],
                           cli=lambda v: ['-c', v], file=lambda v: {'concurrent': v}, observe=lambda g: g['concurrent'], expect=lambda v: int(v), builtin=5)
    T['hide-progress'] = dict(src={CLI, PROF, DEF}, variants=[[True, None, False, True], [True, None, True, False], [True, None, 'false', 'TRUE']],
                              cli=lambda v: ['-q'], file=lambda v: {'hide-progress': v}, observe=lambda g: g['quiet'],
                              expect=lambda v: v if isinstance(v, bool) else v.lower() == 'true', builtin=False)
    T['cache-directory'] = dict(src={CLI, PROF, DEF}, variants=[['/c/cli', None, '/c/prof', 'rel/def']],
                                cli=lambda v: ['--cache-directory', v], file=lambda v: {'cache-directory': v}, observe=lambda g: g['cache_directory'],
                                expect=lambda v: Path(v), builtin=config.DEFAULT_CACHE_DIRECTORY)
    T['no-cache'] = dict(src={CLI, PROF, DEF}, variants=[[True, None, True, False], [True, None, False, True], [True, None, 'true', 'False']],
                         cli=lambda v: ['--no-cache'], file=lambda v: {'no-cache': v}, observe=lambda g: g['cache_directory'],
                         expect=lambda v: None if (v if isinstance(v, bool) else v.lower() == 'true') else config.DEFAULT_CACHE_DIRECTORY,
                         builtin=config.DEFAULT_CACHE_DIRECTORY)

    def bopt(name, variants, builtin):
        hy = name.replace('_', '-')
        return dict(src={CLI, ENV, PROF, DEF}, variants=variants, cli=lambda v: ['--' + hy, str(v)], env=lambda v: {'VTPC_' + name.upper(): str(v)},
                    file=lambda v: {hy: v}, observe=lambda g: g['kw'][name] if isinstance(g['kw'], dict) else MISSING, expect=ref_coerce, builtin=builtin)
    T['account'] = bopt('account', [['acc-cli', 'acc-env', 'acc-prof', 'acc-def'], ['1001', '1002', 1003, 1004], ['a b', 'x:y', 'é', 'q#']], MISSING)
    T['port'] = bopt('port', [['9871', '9872', 9873, 9874], ['1', '2', '3', '4'], ['0', '-5', -6, 0]], 443)
    T['secure'] = bopt('secure', [['false', 'False', False, 'FALSE'], ['true', 'false', True, False], ['no', 'off', 'nein', False]], True)
    T['token'] = bopt('token', [['tcli', 'tenv', 'tprof', 'tdef'], ['none', 'None', 'NONE', 'tok'], ['tok1', 'none', 'tok3', 'tok4']], None)
    T['label'] = bopt('label', [['lcli', 'lenv', 'lprof', 'ldef'], ['true', '12', 'None', '1.5'], ['x', 'y', 2.5, True]], 'std')
    T['ratio'] = bopt('ratio', [['0.1', '0.2', 0.3, 0.4], ['1', '2', 3, '4.0']], 0.5)
    return T


OPTIONS = ['repository', 'password', 'password-file', 'key', 'key-file', 'concurrent', 'hide-progress', 'cache-directory', 'no-cache',
           'account', 'port', 'secure', 'token', 'label', 'ratio']
ACTIONS = [['ls'], ['clean'], ['restore']]


def prec_case(oi, mask, variant, prof_mode, action_i=0):
    """One vector: option `oi` given at the levels in `mask` (bit 0 CLI, 1 environment, 2 profile section, 3 default section), values of
    variant `variant`; prof_mode 0: `--profile p1` selected; 1: no profile selected (the [p1] section is still in the file and must be
    ignored); 2: `--profile p1` and the file also has a decoy profile [p2] with other values."""
    with world.scratch('c19') as d:
        T = option_table(d)
        name = OPTIONS[oi]
        o = T[name]
        vals = o['variants'][variant % len(o['variants'])]
        present = [bool(mask >> i & 1) and i in o['src'] and vals[i] is not None for i in range(4)]
        argv = list(ACTIONS[action_i])
        env = {}
        sections = {'default': {}, 'p1': {}, 'p2': {}}
        is_backend = name in ('account', 'port', 'secure', 'token', 'label', 'ratio')
        if name != 'repository':
            argv += ['-r', 'vtpc:conn']
            if name != 'account':
                sections['default']['account'] = 'acc0'
        if present[CLI]:
            argv += o['cli'](vals[CLI])
        if present[ENV]:
            env.update(o['env'](vals[ENV]))
        if present[PROF]:
            sections['p1'].update(o['file'](vals[PROF]))
        if present[DEF]:
            sections['default'].update(o['file'](vals[DEF]))
        if prof_mode in (0, 2):
            argv += ['--profile', 'p1']
        if prof_mode == 2:
            decoy = vals[DEF] if vals[DEF] is not None else vals[PROF]
            if decoy is not None and name not in ('password-file', 'key-file'):
                sections['p2'].update(o['file'](decoy if not isinstance(decoy, str) else decoy + ('z' if name in ('password', 'label', 'token', 'account', 'repository', 'cache-directory') else '')))
        text = ''.join(f'{k} = {toml_value(v)}\n' for k, v in sections['default'].items())
        for sec in ('p1', 'p2') if prof_mode == 2 else ('p1',):
            text += f'\n[{sec}]\n' + ''.join(f'{k} = {toml_value(v)}\n' for k, v in sections[sec].items())
        eff_order = [CLI, ENV] + ([PROF] if prof_mode in (0, 2) else []) + [DEF]
        src = next((i for i in eff_order if present[i]), None)
        want = o['builtin'] if src is None else o['expect'](vals[src])
        got = run_main(argv, env, text, d)
        if isinstance(got, tuple):
            # an error is the right answer only where nothing supplies a required backend option... which surfaces as MISSING, not as an error
            _say('main() failed', got, 'argv', argv, 'env', env, 'file', repr(text))
            return False, ('error', got[1], name, present)
        seen = o['observe'](got)
        ok = seen == want and type(seen) is type(want)
        if name == 'repository' and src is None:
            ok = seen == tuple(config.DEFAULT_REPOSITORY)          # ('local', the working directory when replicat was started)
        if not ok:
            _say(f'option {name}: effective {seen!r}, precedence says {want!r} (from level {src}); argv', argv, 'env', env, 'file', repr(text))
        # the other options keep their built-in values (nothing leaks from the unselected sections)
        if ok and name not in ('concurrent',) and got.get('concurrent') != 5:
            ok = False
        return ok, (name, present, prof_mode, 'toml-native' if (src in (PROF, DEF) and not isinstance(vals[src], (str, bytes))) else 'text')


N_PREC = len(OPTIONS) * 16 * 3 * 3


def e_prec(k: int) -> bool:
    """Real main(): the effective value of every option is the one of the highest-priority level that gives it, with the coercion of text.
    pre: shard(2160)[0] <= k < shard(2160)[1]
    post: _
    """
    oi, mask, variant, pm = digits(k, [len(OPTIONS), 16, 3, 3])
    with NoTracing():
        ok, info = prec_case(oi, mask, variant, pm)
        tick('e_prec', [oi, mask, variant, pm])
        return ok


assert N_PREC == 2160


def e_prec_full(k: int) -> bool:
    """Same over all 2160 vectors x 3 commands (thorough).
    pre: shard(6480)[0] <= k < shard(6480)[1]
    post: _
    """
    oi, mask, variant, pm, ai = digits(k, [len(OPTIONS), 16, 3, 3, 3])
    with NoTracing():
        ok, info = prec_case(oi, mask, variant, pm, ai)
        tick('e_prec_full', [oi, mask, variant, pm, ai])
        return ok


# --------------------------------------------------------------------------------------------- mutually exclusive options
MUTEX = [
    # (where, a, b)  -> must be rejected ; the same pair given one at a time must be accepted
    ('cli', ['-p', 'x'], ['-P', '@file']),
    ('cli', ['--no-cache'], ['--cache-directory', '/c']),
    ('cli', ['--ignore-config'], ['--config', '@cfg']),
    ('cli-add-key', ['-n', 'x'], ['-N', '@file']),
    ('cli-add-key', ['--shared'], ['--clone']),
    ('file', {'password': 'x'}, {'password-file': '@file'}),
    ('file', {'key': 'x'}, {'key-file': '@file'}),
    ('file-profile', {'password': 'x'}, {'password-file': '@file'}),
    ('file-profile', {'key': 'x'}, {'key-file': '@file'}),
]


def mutex_case(i, which):
    """which: 0 both (rejected), 1 only a, 2 only b (accepted)."""
    where, a, b = MUTEX[i]
    with world.scratch('c19m') as d:
        f = d / 'secret.bin'
        f.write_bytes(b'from file')
        other_cfg = d / 'other.toml'
        other_cfg.write_text('account = "acc0"\n')

        def sub(x):
            if isinstance(x, dict):
                return {k: (str(f) if v == '@file' else v) for k, v in x.items()}
            return [str(f) if v == '@file' else str(other_cfg) if v == '@cfg' else v for v in x]
        a, b = sub(a), sub(b)
        parts = [a, b] if which == 0 else [a] if which == 1 else [b]
        action = ['add-key'] if where == 'cli-add-key' else ['ls']
        argv = action + ['-r', 'vtpc:conn']
        sections = {'default': {'account': 'acc0'}, 'p1': {}}
        for p in parts:
            if where.startswith('cli'):
                argv += p
            elif where == 'file':
                sections['default'].update(p)
            else:
                sections['p1'].update(p)
                if '--profile' not in argv:
                    argv += ['--profile', 'p1']
        text = ''.join(f'{k} = {toml_value(v)}\n' for k, v in sections['default'].items()) + '\n[p1]\n' + ''.join(f'{k} = {toml_value(v)}\n' for k, v in sections['p1'].items())
        cfg_text = text
        if '--ignore-config' in argv or '--config' in argv:
            # the harness adds its own --config: build argv by hand for this pair
            argv = [x for x in argv]
            got = _run_raw(argv, d, env={'VTPC_ACCOUNT': 'acc0'})
        else:
            got = run_main(argv, {}, cfg_text, d)
        rejected = isinstance(got, tuple) and got[1] in ('SystemExit(2)', 'InvalidConfig')
        failed_otherwise = isinstance(got, tuple) and not rejected
        if failed_otherwise:
            _say('unexpected failure', got, argv, repr(text))
            return False
        ok = rejected if which == 0 else not rejected
        if not ok:
            _say('mutually exclusive pair', MUTEX[i], 'which', which, '->', got if rejected else 'accepted', 'argv', argv, 'file', repr(text))
        return ok


def _run_raw(argv, d, env):
    """run_main without the harness's own --config / --ignore-config."""
    got = {}

    async def recorder(backend_type, connection_string, args, settings):
        got['ok'] = True
    _fresh_parsers()
    full = ['replicat'] + argv
    clean = {k: v for k, v in os.environ.items() if not (k.startswith('REPLICAT_') or k.startswith('VTPC_'))}
    clean.update(env)
    cwd = os.getcwd()
    try:
        with mock.patch.dict(os.environ, clean, clear=True), mock.patch.object(sys, 'argv', full), mock.patch.object(M, '_cmd_handler', recorder), \
                mock.patch.object(M, '_configure_logging', lambda level: None), rt.silence():
            os.chdir(d)
            try:
                M.main()
            except SystemExit as e:
                return (ERR, f'SystemExit({e.code})')
            except exceptions.InvalidConfig:
                return (ERR, 'InvalidConfig')
    finally:
        os.chdir(cwd)
    return got


def e_mutex(k: int) -> bool:
    """Mutually exclusive options given together are rejected (usage error / InvalidConfig); each alone is accepted.
    pre: 0 <= k < 9 * 3
    post: _
    """
    i, which = digits(k, [len(MUTEX), 3])
    with NoTracing():
        ok = mutex_case(i, which)
        tick('e_mutex', [i, which])
        return ok


# ------------------------------------------------------------------------------------------------ S: coercions agree between sources
NAT_POOL = ['1', '0', '-1', '+5', ' 7 ', '1_0', '\u0663', '1.0', '', 'abc', '007', '1e3', '9' * 30, '0x10', 'True', '\n2', '2\x00', '\uff11\uff12']


def e_natural(k: int) -> bool:
    """`concurrent` given as text: the command line (`cli._natural_number`) and the configuration file (`config._check_natural_number`)
    accept the same strings with the same value. (As an S obligation over a symbolic string CrossHair's model of int(str) did not finish
    even for two ASCII characters in 200 s - measured -, so the strings are a pool.)
    pre: 0 <= k < 18
    post: _
    """
    (i,) = digits(k, [len(NAT_POOL)])
    with NoTracing():
        s = NAT_POOL[i]
        try:
            a = ('ok', cli._natural_number(s))
        except ValueError:
            a = ('no', None)
        try:
            b = ('ok', config._check_natural_number(s))
        except ValueError:
            b = ('no', None)
        tick('e_natural', [i])
        if a != b:
            _say('text', repr(s), 'command line:', a, 'configuration file:', b)
        return a == b


def s_natural_int(n: int) -> bool:
    """`concurrent = <TOML integer>`: accepted exactly when n >= 1, value n - the same as the text str(n) would give on the command line.
    pre: True
    post: _
    """
    try:
        v = config._check_natural_number(n)
        r = (n >= 1) and v == n
    except ValueError:
        r = n < 1
    with NoTracing():
        tick('s_natural_int', None)
    return r


_BCfg = None


def _backend_cfg():
    global _BCfg
    if _BCfg is None:
        _BCfg = config.config_for_backend(Client, missing=MISSING)
    return _BCfg()


def s_native_int(n: int, which: int) -> bool:
    """A backend option given in the configuration file as a TOML integer takes that integer as its value (the value the text str(n)
    has on the command line and in the environment), for every integer, for options with an int / bool / None / str default.
    pre: 0 <= which < 4
    post: _
    """
    field = ['port', 'secure', 'token', 'label'][which]
    c = _backend_cfg()
    rest = c.apply_known({field: n, 'other': 1})
    with NoTracing():
        tick('s_native_int', None)
    return getattr(c, field) == n and type(getattr(c, field)) is int and rest == {'other': 1}


def s_native_bool(b: bool, f: float, which: int) -> bool:
    """Same for TOML booleans and floats.
    pre: 0 <= which < 4 and f == f
    post: _
    """
    field = ['port', 'secure', 'token', 'label'][which]
    c = _backend_cfg()
    c.apply_known({field: b, 'ratio': f})
    with NoTracing():
        tick('s_native_bool', None)
    return getattr(c, field) is b and c.ratio == f


def s_precedence_fields(cli_has: bool, env_has: bool, prof_has: bool, def_has: bool, a: str, b: str, c: str, d: str) -> bool:
    """The two real config classes applied in main()'s order (file mapping = default section updated by the profile, then the
    environment), with symbolic presence flags and symbolic TEXT values: the backend field is the value of the first level that has it.
    (The command-line level is argparse and is covered by E.prec; here cli_has only shifts nothing.)
    pre: len(a) <= 2 and len(b) <= 2 and len(c) <= 2 and len(d) <= 2
    post: _
    """
    cfg = _backend_cfg()
    merged = {}                                  # read_config's merge: the default section updated by the selected profile
    if def_has:                                  # (the TOML parser itself is outside this obligation; CrossHair's model of dict(x).update(y)
        merged['label'] = d                      #  with symbolic members lost the update, so the merge is spelled out)
    if prof_has:
        merged['label'] = c
    envd = {'VTPC_LABEL': b} if env_has else {}
    # the coercion of text is an injective stub here (ast.literal_eval realises symbolic strings; S.native.* / E.prec cover coercion)
    with mock.patch.object(config, 'guess_type', lambda v: ('coerced', v)), mock.patch.object(config.os, 'environ', envd):
        cfg.apply_known(merged)
        cfg.apply_env()
    want = ('coerced', b) if env_has else ('coerced', c) if prof_has else ('coerced', d) if def_has else 'std'
    with NoTracing():
        tick('s_precedence_fields', None)
    return cfg.label == want
