"""C20 - bandwidth limit. z3 over the AST of RateLimitedIO / _RateLimitedFileWrapper (Reals) + CrossHair transparency."""
from __future__ import annotations

import ast
import json
import os
import threading
import time as _time
from typing import List

import z3

from vt import py2smt as P
from vt.core import REPO, shard, tick
from vt.py2smt import R

UT = 'replicat/utils/__init__.py'
LIMITS = [4, 1000, 1 << 20, 10 ** 9]   # concrete limits for the multi-step queries (d/L with symbolic L is non-linear)
EPS = '0.01'          # assumed bound on how much time.sleep() may overshoot (seconds)


def _methods():
    wm, _ = P.load_class_methods(UT, '_RateLimitedFileWrapper')
    lm, consts = P.load_class_methods(UT, 'RateLimitedIO')
    return wm, lm, consts


class Call:
    """Fresh nondeterministic environment values of one read()/write() call."""

    def __init__(self, i, tag=''):
        self.d = z3.Real(f'd{tag}{i}')        # bytes returned by the underlying read / accepted by write
        self.r = z3.Real(f'r{tag}{i}')        # duration of the underlying I/O call
        self.ov = z3.Real(f'ov{tag}{i}')      # sleep overshoot
        self.req = z3.Real(f'req{tag}{i}')    # requested size

    def constraints(self, L, eps):
        return [self.d >= 0, self.d <= self.req, self.r >= 0, self.ov >= 0, self.ov <= eps, 4 * self.req <= L, self.req >= 0]


def step(kind, D, now, L, c: Call):
    """One wrapper.read()/write() call from debt D at time `now`: returns (D', now', returned length, slept?)."""
    wm, lm, consts = _methods()
    attr = '_read_sleep_amortised' if kind == 'read' else '_write_sleep_amortised'
    lim_name = 'read_limit' if kind == 'read' else 'write_limit'
    pause = 'pause_reads' if kind == 'read' else 'pause_writes'
    slept = []

    def perf(interp, args):
        return interp.s['__now']

    def sleep(interp, args):
        interp.assign('__now', interp.s['__now'] + args[0] + c.ov)
        slept.append((interp.guard, args[0]))
        return None

    def lim_pause(interp, args):
        st = {'self.' + attr: interp.s['__D'], '__now': interp.s['__now'], 'seconds': args[0]}
        sub = P.Interp(st, {'time.perf_counter': perf, 'time.sleep': sleep}, consts, lm)
        sub.guard = interp.guard
        sub.s['__returned'] = z3.BoolVal(False)
        sub.exec_stmts(lm[pause].body)
        interp.s['__D'] = sub.s['self.' + attr]
        interp.s['__now'] = sub.s['__now']
        return None

    def file_io(interp, args):
        interp.assign('__now', interp.s['__now'] + c.r)
        return c.d

    env = {'time.perf_counter': perf, 'len': lambda i, a: a[0], 'self._file.read': file_io, 'self._file.write': file_io,
           f'self._rate_limiter.{pause}': lim_pause}
    st = {'__now': now, '__D': D, f'self._rate_limiter.{lim_name}': L, 'size': c.req, 'data': c.req}
    it = P.Interp(st, env, consts, wm)
    it.exec_stmts(wm[kind].body)
    did_sleep = z3.Or([g for g, _ in slept]) if slept else z3.BoolVal(False)
    return it.s['__D'], it.s['__now'], it.s.get('__ret'), did_sleep, consts


def _frac(m, d, L):
    """bytes/limit of the model's call as a float (None if not evaluable)."""
    try:
        dv, Lv = m.eval(d, True), m.eval(L, True)
        return float(dv.as_fraction() / Lv.as_fraction())
    except Exception:
        return None


def _res(status, detail, t0, **kw):
    r = {'status': status, 'detail': detail, 'solver_s': round(_time.time() - t0, 2)}
    r.update(kw)
    return r


def _check(fs, timeout=120000):
    s = z3.Solver()
    s.set('timeout', timeout)
    s.add(*fs)
    r = s.check()
    return str(r), (s.model() if r == z3.sat else None)


def r1_step(exclude):
    """Inductive step for read and write: from any debt in [-eps, threshold], any d <= L/4, any I/O duration and sleep
    overshoot <= eps: the invariant is re-established, the cap never forgives debt, and d/L <= dt + (D' - D)."""
    t0 = _time.time()
    out = []
    for kind in ('read', 'write'):
        D, now, L, eps = z3.Real('D'), z3.Real('now'), z3.Real('L'), R(EPS)
        c = Call(0)
        D2, now2, ret, slept, consts = step(kind, D, now, L, c)
        thr, cap = R(consts['PAUSE_THRESHOLD_SECONDS']), R(consts['PAUSE_LIMIT'])
        pre = [L >= 1, -eps <= D, D <= thr] + c.constraints(L, eps)
        e = c.d / L
        good = z3.And(-eps <= D2, D2 <= thr, e <= (now2 - now) + (D2 - D), ret == c.d, now2 >= now)
        r, m = _check(pre + [z3.Not(good)])
        out.append((kind, r, str(m)[:300] if m is not None else '', _frac(m, c.d, L) if m is not None else None))
        # reachability witnesses: a step that sleeps and a step that does not
        w1, _ = _check(pre + [slept])
        w2, _ = _check(pre + [z3.Not(slept), c.d > 0])
        if r == 'unsat' and (w1 != 'sat' or w2 != 'sat'):
            return _res('inconclusive', f'{kind}: vacuous (sleep reachable: {w1}, no-sleep reachable: {w2})', t0)
    bad = [o for o in out if o[1] != 'unsat']
    if not bad:
        return _res('confirmed', 'read and write steps preserve -eps <= debt <= threshold and account every byte: d/L <= dt + d(debt)', t0,
                    paths=2, distinct=2, samples=[{'kind': o[0], 'verdict': o[1]} for o in out])
    if any(o[1] == 'sat' for o in bad):
        return _res('refuted', f'one-step obligation fails: {bad}', t0, extra={'replay': replay_single(bad)}, cex={'models': [b[2] for b in bad]})
    return _res('inconclusive', f'solver: {bad}', t0)


def r2_bmc(exclude):
    """k sequential calls of one stream from a fresh limiter: for every window of calls i..j the bytes passed are
    <= L * (end_j - start_i) + (threshold + eps) * L. Does not rely on the telescoping lemma."""
    t0 = _time.time()
    K = int(os.environ.get('VT_BMC_K', '5'))
    verdicts = []
    for kind, Lc in [(k, l) for k in ('read', 'write') for l in LIMITS]:
        L, eps = R(Lc), R(EPS)
        D, now = R(0), z3.Real('t0')
        cs, starts, ends, pre = [], [], [], []
        consts = None
        for i in range(K):
            c = Call(i)
            gap = z3.Real(f'gap{i}')
            pre += c.constraints(L, eps) + [gap >= 0]
            now = now + gap
            starts.append(now)
            D, now, ret, slept, consts = step(kind, D, now, L, c)
            ends.append(now)
            cs.append(c)
        thr = R(consts['PAUSE_THRESHOLD_SECONDS'])
        def viol(margin):
            out = []
            for i in range(K):
                for j in range(i, K):
                    total = z3.Sum([cs[k].d for k in range(i, j + 1)])
                    out.append(total > L * (ends[j] - starts[i]) + (thr + eps) * L + R(margin) * L)
            return out
        r, m = _check(pre + [z3.Or(viol('0'))], timeout=600000)
        if m is not None:
            # for the replay prefer a model that exceeds the bound by a margin (floating point on the real class blurs boundary models)
            for mg in ('0.01', '0.001', '0.0001'):
                r2, m2 = _check(pre + [z3.Or(viol(mg))], timeout=120000)
                if m2 is not None:
                    m = m2
                    break
        verdicts.append((f'{kind}@L={Lc}', r, str(m)[:400] if m is not None else '', None,
                         replay_trace(kind, Lc, m, cs, K, consts) if m is not None else None))
    bad = [v for v in verdicts if v[1] != 'unsat']
    if not bad:
        return _res('confirmed', f'{K} calls, all {K * (K + 1) // 2} windows, read and write, L in {LIMITS}: bytes <= L*T + (0.25+eps)*L', t0,
                    paths=2 * K * (K + 1) // 2, distinct=K * (K + 1) // 2, samples=[{'k': K, 'kind': k, 'verdict': r} for k, r, *_ in verdicts])
    if any(v[1] == 'sat' for v in bad):
        traces = [b[4] for b in bad if b[4] is not None and not b[4]['ok']]
        rp = traces[0] if traces else replay_single(bad)
        return _res('refuted', f'window bound violated: {[b[:3] for b in bad]}', t0, extra={'replay': rp}, cex={'models': [b[2] for b in bad]})
    return _res('inconclusive', f'solver: {bad}', t0)


def replay_trace(kind, Lc, m, cs, K, consts):
    """Replay the model's call sequence (sizes, I/O durations, gaps, sleep overshoots) on the real classes with a
    controlled clock, and measure every window of calls."""
    import replicat.utils as U

    def val(x):
        v = m.eval(x, True)
        return float(v.as_fraction())
    calls = [dict(d=int(val(c.d)), req=max(int(val(c.req)), int(val(c.d))), r=val(c.r), ov=val(c.ov), gap=val(z3.Real(f'gap{i}'))) for i, c in enumerate(cs)]
    cur = {'i': 0}

    class Clock:
        now = val(z3.Real('t0'))

        def perf_counter(self):
            return self.now

        def sleep(self, sec):
            self.now += sec + calls[cur['i']]['ov']

        def __getattr__(self, n):
            return getattr(_time, n)
    clock = Clock()

    class Src:
        def read(self, n):
            clock.now += calls[cur['i']]['r']
            return b'x' * min(n, calls[cur['i']]['d'])

        def write(self, b):
            clock.now += calls[cur['i']]['r']
            return min(len(b), calls[cur['i']]['d'])
    saved = U.time
    U.time = clock
    try:
        w = U.RateLimitedIO(Lc).wrap(Src())
        starts, ends, got = [], [], []
        for i, c in enumerate(calls):
            cur['i'] = i
            clock.now += c['gap']
            starts.append(clock.now)
            if kind == 'read':
                got.append(len(w.read(c['req'])))
            else:
                got.append(w.write(b'x' * c['d']))
            ends.append(clock.now)
    finally:
        U.time = saved
    thr = float(consts['PAUSE_THRESHOLD_SECONDS'])
    for i in range(K):
        for j in range(i, K):
            total = sum(got[i:j + 1])
            bound = Lc * (ends[j] - starts[i]) + (thr + float(EPS)) * Lc
            if total > bound + 1e-6 * max(1, Lc) + (j - i + 1):      # (+1 byte per call: the model's real-valued sizes are truncated)
                return {'ok': False, 'kind': kind, 'limit': Lc, 'window': [i, j], 'bytes': total, 'bound': bound, 'calls': calls}
    return {'ok': True, 'note': 'model trace did not exceed the bound on the real class', 'calls': calls}


def replay_single(bad):
    """Replay on the real class with a controlled clock: a long run of instantaneous reads whose size/limit ratio is the one
    of the solver's model (and of quarter-limit reads), measuring every window that ends at the end of the run."""
    import replicat.utils as U

    class Clock:
        def __init__(self):
            self.now = 0.0

        def perf_counter(self):
            return self.now

        def sleep(self, s):
            self.now += s

        def __getattr__(self, n):
            return getattr(_time, n)
    ratios = [0.25, 0.001, 0.00005]
    for b in bad:
        if len(b) > 3 and b[3]:
            ratios.append(b[3])
    saved = U.time
    try:
        for e in ratios:
            clock = Clock()
            U.time = clock
            L = 10 ** 6
            d = max(1, int(e * L))
            lim = U.RateLimitedIO(L)

            class Src:
                def read(self, n):
                    return b'x' * n

                def write(self, b):
                    return len(b)
            w = lim.wrap(Src())
            total = 0
            n = min(int(4 * L / d) + 10, 400000)
            for _ in range(n):
                total += len(w.read(d))
            if total > L * clock.now + 0.76 * L + d:
                return {'ok': False, 'bytes': total, 'virtual_seconds': clock.now, 'limit': L, 'read_size': d}
        return {'ok': True, 'note': 'model did not reproduce on the real class', 'ratios': ratios}
    finally:
        U.time = saved


# ----------------------------------------------------------------------------- R3: chunk size chosen by the commands
def _module_consts(tree):
    out = {}
    for n in ast.walk(tree):
        if isinstance(n, ast.Assign) and len(n.targets) == 1 and isinstance(n.targets[0], ast.Name):
            try:
                v = ast.literal_eval(n.value)
            except Exception:
                continue
            if isinstance(v, int) and not isinstance(v, bool):
                out[n.targets[0].id] = v
    return out


def r3_chunk_sites(exclude):
    """Every expression of repository.py that derives a transfer chunk size from the rate limit (any value assigned or
    returned that contains `rate_limit // ...`): for L >= 4 and N >= 1 the chunk size is <= L/4 (the precondition of R1)
    and >= 1. Unbounded integers; floor division by its defining inequalities."""
    t0 = _time.time()
    src = (REPO / 'replicat' / 'repository.py').read_text()
    tree = ast.parse(src)
    consts = _module_consts(tree)
    try:
        import replicat.backends.base as _b
        consts.setdefault('DEFAULT_STREAM_CHUNK_SIZE', _b.DEFAULT_STREAM_CHUNK_SIZE)
    except Exception:
        pass
    sites = []
    for n in ast.walk(tree):
        val = n.value if isinstance(n, (ast.Assign, ast.Return, ast.AnnAssign)) else None
        if val is None:
            continue
        if any(isinstance(m, ast.BinOp) and isinstance(m.op, (ast.FloorDiv, ast.Div)) and 'rate_limit' in ast.unparse(m.left) for m in ast.walk(val)):
            sites.append((n.lineno, val))
    if not sites:
        return _res('inconclusive', 'no expression deriving a chunk size from rate_limit found (anchor moved?)', t0)
    L, N = z3.Ints('L N')

    def ev(node):
        if isinstance(node, ast.Constant) and isinstance(node.value, int):
            return z3.IntVal(node.value)
        if isinstance(node, ast.Name) and node.id == 'rate_limit':
            return L
        if isinstance(node, ast.Name) and node.id in consts:
            return z3.IntVal(consts[node.id])
        if isinstance(node, ast.Attribute) and node.attr == '_concurrent':
            return N
        if isinstance(node, ast.Attribute) and node.attr in consts:
            return z3.IntVal(consts[node.attr])
        if isinstance(node, ast.BinOp):
            a, b = ev(node.left), ev(node.right)
            if isinstance(node.op, ast.FloorDiv):
                q = z3.FreshInt('q')
                side.append(z3.And(q * b <= a, a < (q + 1) * b))   # floor division for a positive divisor
                side.append(b > 0)
                return q
            if isinstance(node.op, ast.Mult):
                return a * b
            if isinstance(node.op, ast.Add):
                return a + b
            if isinstance(node.op, ast.Sub):
                return a - b
        if isinstance(node, ast.Call) and isinstance(node.func, ast.Name) and node.func.id in ('max', 'min') and len(node.args) == 2:
            a, b = ev(node.args[0]), ev(node.args[1])
            return z3.If(a >= b, a, b) if node.func.id == 'max' else z3.If(a <= b, a, b)
        if isinstance(node, ast.IfExp):
            raise P.Unsupported('conditional chunk size: ' + ast.unparse(node))
        raise P.Unsupported(ast.unparse(node))
    verdicts = []
    for lineno, val in sites:
        side = []
        size = ev(val)
        r, m = _check([L >= 4, N >= 1] + side + [z3.Or(4 * size > L, size < 1)])
        verdicts.append((lineno, ast.unparse(val), r, {str(d): m[d].as_long() for d in m.decls() if str(d) in ('L', 'N')} if m is not None else {}))
    bad = [v for v in verdicts if v[2] != 'unsat']
    if not bad:
        return _res('confirmed', f'{len(sites)} site(s): 1 <= size <= L/4 for every L >= 4, N >= 1 (L < 4 is outside the property)', t0,
                    paths=len(sites), distinct=len({v[1] for v in verdicts}), samples=[{'line': v[0], 'expr': v[1]} for v in verdicts])
    if any(v[2] == 'sat' for v in bad):
        m = bad[0]
        rp = replay_chunk_size(m[3].get('L', 4), m[3].get('N', 1))
        return _res('refuted', f'chunk size exceeds L/4: {bad[:2]}', t0, extra={'replay': rp}, cex={'site': m[1], 'model': m[3]})
    return _res('inconclusive', f'solver: {bad}', t0)


class _RecBackend:
    """Records the chunk size each command passes to the streaming calls."""

    def __init__(self):
        self.sizes = []
        self.objs = {}

    async def exists(self, name):
        return False

    async def upload(self, name, data):
        self.objs[name] = bytes(data)

    async def upload_stream(self, name, stream, length, chunk_size=None):
        self.sizes.append(('upload_stream', chunk_size))
        self.objs[name] = stream.read()

    async def download(self, name):
        return self.objs[name]

    async def download_stream(self, name, stream, chunk_size=None):
        self.sizes.append(('download_stream', chunk_size))
        stream.write(self.objs[name])

    async def list_files(self, prefix=''):
        for k in sorted(self.objs):
            if k.startswith(prefix):
                yield k

    async def delete(self, name):
        self.objs.pop(name, None)

    async def clean(self):
        pass

    async def close(self):
        pass


def chunk_sizes_used(L, N):
    """Chunk sizes the four commands really pass to the backend for rate limit L and concurrency N."""
    import os as _os
    import tempfile
    import shutil
    from vt import rt as _rt
    R = _rt.patch_repository_for_miniloop()
    import replicat.utils as U

    class _NoLimit:
        def __init__(self, *a, **k):
            pass

        def wrap(self, f):
            return f
    saved = U.RateLimitedIO
    U.RateLimitedIO = _NoLimit
    d = tempfile.mkdtemp(prefix='c20', dir='/verif/.work' if _os.path.isdir('/verif/.work') else None)
    cwd = _os.getcwd()
    try:
        _os.chdir(d)
        _os.mkdir('src')
        with open('src/f.bin', 'wb') as f:
            f.write(b'x' * 50)
        be = _RecBackend()
        repo = R.Repository(be, concurrent=N, cache_directory=None)
        with _rt.silence():
            _rt.MiniLoop().run_until_complete(repo.init(password=b'pw', settings=_rt.fast_settings(False)))
        from pathlib import Path
        _rt.MiniLoop().run_until_complete(repo.snapshot(paths=[Path(d, 'src')], rate_limit=L))
        _rt.MiniLoop().run_until_complete(repo.restore(path=Path(d, 'out'), rate_limit=L))
        _rt.MiniLoop().run_until_complete(repo.upload_objects([Path(d, 'src', 'f.bin')], rate_limit=L))
        _rt.MiniLoop().run_until_complete(repo.download_objects(path=Path(d, 'dl'), object_prefix='src/', rate_limit=L))
        return list(be.sizes)
    finally:
        U.RateLimitedIO = saved
        _os.chdir(cwd)
        shutil.rmtree(d, ignore_errors=True)


def replay_chunk_size(L, N):
    sizes = chunk_sizes_used(L, N)
    bad = [s for s in sizes if not (1 <= s[1] and 4 * s[1] <= L)]
    return {'ok': not bad, 'L': L, 'N': N, 'sizes': sizes[:8]}


LPOOL = [4, 5, 7, 16, 63, 64, 100, 1000, 2048, 8191, 8192, 65536, 10 ** 6, 10 ** 9]
NPOOL = [1, 2, 5, 16, 64]


def r3e_commands(k: int) -> bool:
    """The chunk size that snapshot / restore / upload_objects / download_objects actually hand to the backend for rate
    limit L and concurrency N satisfies 1 <= size <= L/4 (observed on the real commands, whatever helper computes it).
    pre: 0 <= k < 14 * 5
    post: _
    """
    from crosshair.tracers import NoTracing
    from vt.core import digits
    li, ni = digits(k, [14, 5])
    with NoTracing():
        L, N = LPOOL[li], NPOOL[ni]
        sizes = chunk_sizes_used(L, N)
        tick('r3e', [L, N, sizes[:4]])
        ops = {s[0] for s in sizes}
        ok = ops == {'upload_stream', 'download_stream'} and len(sizes) >= 4 and all(1 <= s[1] and 4 * s[1] <= L for s in sizes)
        if not ok and os.environ.get('VT_REPLAY'):
            print('DETAIL:', L, N, sizes)
        return ok


# ----------------------------------------------------------------------------- R5: several streams on one limiter
def r5_streams(exclude):
    """Two streams, two calls each, sharing one limiter; underlying reads may overlap in wall-clock time, pause sections
    are mutually exclusive. Window = start of the first call to end of the last. With 'F9' excluded the reads are
    required not to overlap (a single logical stream) and the bound must hold."""
    t0 = _time.time()
    L, eps = R(1000), R(EPS)
    wm, lm, consts = _methods()
    thr = R(consts['PAUSE_THRESHOLD_SECONDS'])
    # per-call semantics from the AST: debt update as a function of (D, d, real_elapsed, overshoot); the pause happens at the
    # global time the lock is obtained. We reuse step() by letting `now` be the time the underlying read started and forcing
    # the pause to start when the previous pause (any stream) has ended.
    KS = 3
    order = [(s, i) for i in range(KS) for s in 'AB']          # order in which the pause sections are entered
    D = R(0)
    pre = []
    start, rend, pend, calls = {}, {}, {}, {}
    lock_free = z3.Real('lock0')
    pre.append(lock_free == 0)
    for (s, i) in order:
        c = Call(i, tag=s)
        calls[(s, i)] = c
        pre += c.constraints(L, eps)
        st = z3.Real(f'start{s}{i}')
        start[(s, i)] = st
        pre.append(st >= (pend[(s, i - 1)] if i > 0 else 0))
        # read occupies [st, st + r]; the pause section starts when both the read is done and the lock is free
        D2, now2, ret, slept, _ = step('read', D, st, L, c)
        # `step` runs the pause right after the read; shift its end by the time spent waiting for the lock
        wait = z3.Real(f'wait{s}{i}')
        pre += [wait >= 0, st + c.r + wait >= lock_free]
        rend[(s, i)] = st + c.r
        pend[(s, i)] = now2 + wait
        lock_free = now2 + wait
        D = D2
    if 'F9' in exclude:
        # reads of different streams do not overlap in time: the limiter is used like a single stream
        keys = list(calls)
        for a in range(len(keys)):
            for b in range(a + 1, len(keys)):
                ka, kb = keys[a], keys[b]
                if ka[0] != kb[0]:
                    pre.append(z3.Or(pend[ka] <= start[kb], pend[kb] <= start[ka]))
    total = z3.Sum([c.d for c in calls.values()])
    t_first = z3.Real('tf')
    t_last = z3.Real('tl')
    pre += [z3.And([t_first <= s for s in start.values()]), z3.Or([t_first == s for s in start.values()])]
    pre += [z3.And([t_last >= p for p in pend.values()]), z3.Or([t_last == p for p in pend.values()])]
    viol = total > L * (t_last - t_first) + (thr + eps) * L + L / 4     # generous: + one more chunk in flight
    r, m = _check(pre + [viol], timeout=300000)
    if r == 'unsat':
        return _res('confirmed', 'bound holds for 2 streams x 3 calls' + (' when their reads do not overlap' if 'F9' in exclude else ''), t0,
                    paths=1, distinct=1, samples=[{'order': str(order)}])
    if r == 'sat':
        vals = {str(d): str(m[d]) for d in m.decls() if str(d).startswith(('start', 'dA', 'dB', 'rA', 'rB', 'L'))}
        rp = replay_two_streams()
        return _res('refuted', f'two streams with overlapping reads exceed the bound: {vals}', t0, extra={'replay': rp},
                    cex={'overlapping_streams': True, 'model': vals})
    return _res('inconclusive', 'solver: ' + r, t0)


def replay_two_streams():
    """Real class, two threads, controlled clock: each stream alone runs at exactly L; together 2L, never sleeping."""
    import replicat.utils as U

    class Clock:
        def __init__(self):
            self.now = 0.0
            self.slept = 0.0

        def perf_counter(self):
            return self.now

        def sleep(self, s):
            self.now += s
            self.slept += s

        def __getattr__(self, n):
            return getattr(_time, n)
    saved = U.time
    clock = Clock()
    U.time = clock
    try:
        L, d, r, N, K = 1000, 250, 0.25, 2, 20
        bar = threading.Barrier(N)

        class Src:
            def read(self, size):
                i = bar.wait()
                if i == 0:
                    clock.now += r
                bar.wait()
                return b'x' * size
        lim = U.RateLimitedIO(L)
        tot = []

        def run():
            w = lim.wrap(Src())
            n = 0
            for _ in range(K):
                n += len(w.read(d))
            tot.append(n)
        ts = [threading.Thread(target=run) for _ in range(N)]
        [t.start() for t in ts]
        [t.join() for t in ts]
        total = sum(tot)
        ok = total <= L * clock.now + 0.75 * L
        return {'ok': ok, 'bytes': total, 'virtual_seconds': clock.now, 'limit': L, 'slept': clock.slept}
    finally:
        U.time = saved


def known_f9(cex):
    return bool(cex.get('overlapping_streams'))


# ----------------------------------------------------------------------------- encoding validation against the real class
def tv_limiter(exclude):
    """The z3 transition (from the AST) agrees with the real class driven by a controlled clock on a grid of
    (initial debt, bytes, I/O duration, limit) incl. the repo's own test parameters."""
    t0 = _time.time()
    import replicat.utils as U

    class Clock:
        def __init__(self):
            self.now = 100.0
            self.slept = 0.0

        def perf_counter(self):
            return self.now

        def sleep(self, s):
            self.now += s
            self.slept += s

        def __getattr__(self, n):
            return getattr(_time, n)
    saved = U.time
    from fractions import Fraction as Fr
    cases = []
    for L in (4, 128, 1000):
        for D0 in (Fr(0), Fr(1, 8), Fr(1, 4), Fr(-1, 100)):
            for d in (0, 1, L // 8, L // 4):
                for r in (Fr(0), Fr(1, 8), Fr(16, 100), Fr(5875, 10000)):
                    cases.append((L, D0, d, r))
    bad = []
    try:
        for kind in ('read', 'write'):
            D, now, Lz = z3.Real('D'), z3.Real('now'), z3.Real('L')
            c = Call(0)
            D2, now2, ret, slept, consts = step(kind, D, now, Lz, c)
            for (L, D0, d, r) in cases:
                clock = Clock()
                U.time = clock
                lim = U.RateLimitedIO(L)
                setattr(lim, '_read_sleep_amortised' if kind == 'read' else '_write_sleep_amortised', float(D0))

                class F:
                    def read(self, n):
                        clock.now += float(r)
                        return b'x' * d

                    def write(self, b):
                        clock.now += float(r)
                        return d
                w = lim.wrap(F())
                (w.read(d) if kind == 'read' else w.write(b'x' * d))
                realD = getattr(lim, '_read_sleep_amortised' if kind == 'read' else '_write_sleep_amortised')
                sub = [(D, R(str(D0))), (now, R(100)), (Lz, R(L)), (c.d, R(d)), (c.r, R(str(r))), (c.ov, R(0)), (c.req, R(d))]
                mD = z3.simplify(z3.substitute(D2, *sub))
                mN = z3.simplify(z3.substitute(now2, *sub))
                fD = float(mD.as_fraction())
                fN = float(mN.as_fraction())
                if abs(fD - realD) > 1e-9 or abs(fN - clock.now) > 1e-9:
                    bad.append((kind, L, str(D0), d, str(r), fD, realD, fN, clock.now))
    finally:
        U.time = saved
    if bad:
        return _res('inconclusive', f'encoding disagrees with the real class: {bad[:3]}', t0)
    return _res('confirmed', f'{2 * len(cases)} (kind, limit, debt, bytes, duration) points: z3 transition == real class under a controlled clock', t0,
                paths=2 * len(cases), distinct=2 * len(cases), samples=[{'L': 1000, 'D0': '1/4', 'd': 250, 'r': '0.16'}])


# ----------------------------------------------------------------------------- R4 transparency (CrossHair)
class _RecFile:
    """Underlying stream that records every call and returns solver-chosen values."""

    def __init__(self, rets):
        self.calls, self.rets = [], list(rets)

    def _r(self):
        return self.rets.pop(0)

    def read(self, size=-1):
        self.calls.append(('read', size))
        return self._r()

    def write(self, data):
        self.calls.append(('write', data))
        return self._r()

    def seek(self, *a, **k):
        self.calls.append(('seek', a, k))
        return self._r()

    def tell(self, *a, **k):
        self.calls.append(('tell', a, k))
        return self._r()

    def truncate(self, *a, **k):
        self.calls.append(('truncate', a, k))
        return self._r()


class _AnyLimit:
    """Stands for the numeric limit: bytes / limit is some duration; its value is irrelevant to transparency."""

    def __rtruediv__(self, other):
        return 0.0


class _StubLimiter:
    read_limit = write_limit = _AnyLimit()

    def __init__(self):
        self.paused = []

    def pause_reads(self, s):
        self.paused.append(('r', s))

    def pause_writes(self, s):
        self.paused.append(('w', s))


def _mk_wrapped(rets):
    import replicat.utils as U
    f = _RecFile(rets)
    return f, U._RateLimitedFileWrapper(f, _StubLimiter())


def r4_read(data1: bytes, data2: bytes, n1: int, n2: int) -> bool:
    """read(n) through the limiter calls the underlying read(n) once and returns exactly what it returned, in order.
    pre: len(data1) <= 3 and len(data2) <= 3
    post: _
    """
    f, w = _mk_wrapped([data1, data2])
    a, b = w.read(n1), w.read(n2)
    from crosshair.tracers import NoTracing
    with NoTracing():
        tick('r4r', None)
    return a == data1 and b == data2 and f.calls == [('read', n1), ('read', n2)]


def r4_write_seek(a: bytes, wret: int, pos: int, whence: int, sret: int, cut: int, tret: int) -> bool:
    """write/seek/truncate/tell through the limiter are forwarded with unchanged arguments and return values.
    pre: len(a) <= 3 and 0 <= wret <= 3
    post: _
    """
    f, w = _mk_wrapped([wret, sret, tret, 7])
    r1 = w.write(a)
    r2 = w.seek(pos, whence)
    r3 = w.truncate(cut)
    r4 = w.tell()
    from crosshair.tracers import NoTracing
    with NoTracing():
        tick('r4w', None)
    return (r1, r2, r3, r4) == (wret, sret, tret, 7) and f.calls == [('write', a), ('seek', (pos, whence), {}), ('truncate', (cut,), {}), ('tell', (), {})]


# ----------------------------------------------------------------------------- R6: several streams with instantaneous I/O (cooperative threads)
class _CoopLock:
    def __init__(self):
        self.held = False

    def __enter__(self):
        assert not self.held
        self.held = True
        return self

    def __exit__(self, *a):
        self.held = False


class _VClock:
    """Virtual time for cooperative threads: sleeping inside a critical section advances the clock at once (nobody else can
    pause meanwhile); sleeping outside one parks the thread until the clock reaches its wake-up time."""

    def __init__(self, locks):
        self.now, self.locks, self.current = 0.0, locks, None
        self.wake = {}

    def perf_counter(self):
        return self.now

    def sleep(self, s):
        if any(l.held for l in self.locks):
            self.now += s
        else:
            self.wake[self.current] = self.now + s

    def __getattr__(self, n):
        return getattr(_time, n)


def _lift_pause(kind):
    from vt import lift
    import replicat.utils as U
    mod, tree = lift._module_tree('replicat.utils')
    cls = [n for n in tree.body if isinstance(n, ast.ClassDef) and n.name == 'RateLimitedIO'][0]
    fn = [n for n in cls.body if isinstance(n, ast.FunctionDef) and n.name == ('pause_reads' if kind == 'read' else 'pause_writes')][0]
    fn = lift.Yielder({'_read_lock', '_write_lock'}, spin=True).instrument(fn)
    m = ast.Module(body=[fn], type_ignores=[])
    ast.fix_missing_locations(m)
    ns = dict(mod.__dict__)
    exec(compile(m, '<coop RateLimitedIO.pause>', 'exec'), ns)
    return ns[fn.name], ns


def streams_case(kind, n_streams, calls, sched, L=1000):
    import replicat.utils as U
    pause, ns = _lift_pause(kind)
    lim = U.RateLimitedIO(L)
    lim._read_lock, lim._write_lock = _CoopLock(), _CoopLock()
    clock = _VClock([lim._read_lock, lim._write_lock])
    ns['time'] = clock
    d = L // 4
    passed = [0]
    log = []

    def stream(i):
        for _ in range(calls):
            passed[0] += d                   # the underlying read/write is instantaneous: real_elapsed = 0
            log.append((clock.now, passed[0]))
            yield from pause(lim, d / L)
    gens = {i: stream(i) for i in range(n_streams)}
    si = 0
    guard = 0
    while gens:
        guard += 1
        if guard > 100000:
            return False, 'simulation does not terminate'
        runnable = [i for i in gens if clock.wake.get(i, 0.0) <= clock.now]
        if not runnable:
            clock.now = min(clock.wake[i] for i in gens)
            continue
        i = runnable[sched[si % len(sched)] % len(runnable)]
        si += 1
        clock.current = i
        try:
            next(gens[i])
        except StopIteration:
            del gens[i]
    T = clock.now
    total = passed[0]
    # every window that starts at a call and ends at the end of the run / at a later call
    for (t0, b0) in log:
        for (t1, b1) in log + [(T, total)]:
            if t1 >= t0 and b1 - (b0 - d) > L * (t1 - t0) + 0.26 * L + n_streams * d:
                return False, f'{n_streams} streams with instantaneous I/O passed {b1 - b0 + d} bytes in {t1 - t0:.3f}s under L={L} (schedule {sched})'
    return True, ''


def r6_streams_instant(k: int) -> bool:
    """N streams sharing one limiter whose underlying I/O takes no time (so the per-call credit that causes F9 is zero): the
    window bound holds under every interleaving of the pause sections.
    pre: shard(2 * 3 * 4 * 4 * 4 * 4)[0] <= k < shard(2 * 3 * 4 * 4 * 4 * 4)[1]
    post: _
    """
    from crosshair.tracers import NoTracing
    from vt.core import digits
    ki, ni, s0, s1, s2, s3 = digits(k, [2, 3, 4, 4, 4, 4])
    with NoTracing():
        ok, msg = streams_case(['read', 'write'][ki], ni + 2, 6, [s0, s1, s2, s3])
        tick('r6', [ki, ni + 2, s0, s1, s2, s3])
        if not ok and os.environ.get('VT_REPLAY'):
            print('DETAIL:', msg)
        return ok


# ----------------------------------------------------------------------------- R7: the adapters honour the chunk size they are given
class _RecStream:
    """Payload source / destination that records the size of every read request and every write."""

    def __init__(self, data=b''):
        import io
        self.b = io.BytesIO(data)
        self.reads, self.writes = [], []

    def read(self, n=-1):
        self.reads.append(n)
        return self.b.read(n)

    def write(self, data):
        self.writes.append(len(data))
        return self.b.write(data)

    def seek(self, *a):
        return self.b.seek(*a)

    def tell(self):
        return self.b.tell()

    def truncate(self, *a):
        return self.b.truncate(*a)


def adapter_pieces_case(kind, chunk_size, size, op):
    """upload_stream / download_stream of the local, S3-compatible and B2 adapters with a chunk size: every read request on
    the payload stream and every write to the destination is at most that size (the limiter's bound assumes d <= L/4, and
    the commands choose the chunk size accordingly - R3), and the bytes arrive intact."""
    import io
    from vt import fakes, rt, world
    data = bytes((i * 13 + 5) % 251 for i in range(size))
    name = 'data/ab/cd-piece'
    loop = rt.MiniLoop(budget=2_000_000)
    with world.scratch('c20p') as d:
        if kind == 'local':
            import replicat.backends.local as LB
            be = LB.Local(str(d / 'r'))
            call = lambda f, *a: f(*a)
            stored = lambda: (d / 'r' / name).read_bytes()
        else:
            svc = fakes.FakeS3() if kind == 's3' else fakes.FakeB2()
            svc.max_requests = 100000
            be = fakes.s3_backend(svc) if kind == 's3' else fakes.b2_backend(svc)
            call = lambda f, *a: loop.run_until_complete(f(*a))
            stored = lambda: svc.objs[name]
        rec = _RecStream(data)
        if op == 0:
            call(be.upload_stream, name, rec, len(data), chunk_size)
            if stored() != data:
                return False, f'{kind}: upload_stream stored different bytes'
            sizes = [n for n in rec.reads]
            if kind == 's3' and 'F14' in os.environ.get('VT_EXCLUDE', '').split(','):
                # known finding F14: the digest pre-pass of the S3 adapter reads sha256.block_size * 10000 bytes at a time
                import hashlib
                sizes = [n for n in sizes if n != hashlib.sha256().block_size * 10_000]
            if any(n is None or n < 0 or n > chunk_size for n in sizes):
                return False, f'{kind}: upload_stream(chunk_size={chunk_size}) asked the payload stream for {max((n for n in sizes if n is not None), default=None)} bytes at once (or for everything)'
        else:
            call(be.upload, name, data)
            call(be.download_stream, name, rec, chunk_size)
            if rec.b.getvalue() != data:
                return False, f'{kind}: download_stream delivered different bytes'
            if any(n > chunk_size for n in rec.writes):
                return False, f'{kind}: download_stream(chunk_size={chunk_size}) wrote {max(rec.writes)} bytes at once'
        return True, ''


def known_f14(args):
    """S3-compatible adapter, upload_stream: the payload digest is computed by reading the stream in 640000-byte pieces."""
    ki, ci, si, op = _decode4(args['k'])
    return ki == 1 and op == 0


def _decode4(k):
    out = []
    for r in [3, 5, 4, 2]:
        out.append(k % r)
        k //= r
    return out


def f14_replay():
    """The digest pre-pass on the real classes with a controlled clock: bytes that pass the limiter vs the bound."""
    import io
    import replicat.utils as U
    import replicat.backends.s3c as S

    class Clock:
        now = 0.0

        def perf_counter(self):
            return self.now

        def sleep(self, sec):
            self.now += sec

        def __getattr__(self, n):
            return getattr(_time, n)
    clock, saved = Clock(), U.time
    U.time = clock
    try:
        L = 100_000
        w = U.RateLimitedIO(L).wrap(io.BytesIO(bytes(3_200_000)))
        S._get_stream_hexdigest(w)
        return {'limit': L, 'bytes': 3_200_000, 'virtual_seconds': clock.now, 'bound': L * clock.now + 0.76 * L}
    finally:
        U.time = saved


def r7_adapter_pieces(k: int) -> bool:
    """
    pre: 0 <= k < 3 * 5 * 4 * 2
    post: _
    """
    from crosshair.tracers import NoTracing
    from vt.core import digits
    ki, ci, si, op = digits(k, [3, 5, 4, 2])
    with NoTracing():
        ok, msg = adapter_pieces_case(['local', 's3', 'b2'][ki], [1, 7, 2000, 64000, 200000][ci], [0, 5, 4001, 300000][si] if ci else [0, 5, 33, 130][si], op)
        tick('r7', [ki, ci, si, op])
        if not ok and os.environ.get('VT_REPLAY'):
            print('DETAIL:', msg)
        return ok
