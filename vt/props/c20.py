from ..core import Ob
from ..harness import c20 as _h

H = 'vt.harness.c20'
U = 'replicat.utils:'
FN = [U + '_RateLimitedFileWrapper.read', U + '_RateLimitedFileWrapper.write', U + 'RateLimitedIO.pause_reads', U + 'RateLimitedIO.pause_writes']
EXPLANATION = (
    'The four limiter methods are translated on every run from the AST of replicat/utils/__init__.py into z3 real arithmetic by a small symbolic '
    'interpreter with ite state merging (vt/py2smt.py); clock, sleep and the underlying file are nondeterministic stubs (any I/O duration >= 0, any '
    'returned length <= requested, sleep overshoot in [0, eps]). R1 is an inductive step with SYMBOLIC limit L, debt, bytes, duration: from any '
    'state with -eps <= debt <= threshold and d <= L/4 the invariant is re-established and d/L <= dt + d(debt), whose telescoping sum bounds the bytes '
    'in any window of calls by L*T + (threshold+eps)*L. R2 unrolls K calls (quick 8, thorough 16) and checks every window directly for L in '
    '{4, 1000, 2^20, 10^9}. R3 extracts the four chunk-size expressions of the commands and shows 1 <= size <= L/4 for all L >= 4, N >= 1 (unbounded '
    'integers). TV validates the encoding against the real class under a controlled clock. R4 (CrossHair, symbolic bytes/offsets) shows the wrapper '
    'returns exactly the underlying data and forwards seek/tell/truncate. R5 models two streams on one limiter with overlapping reads: z3 finds the '
    'schedule in which each stream stays under L and the aggregate is 2L (known finding F9, replayed with two real threads); with that class excluded '
    '(calls of different streams do not overlap) the bound is unsat-proved for 2x3 calls. R6 covers the multi-stream sub-case in which the property does hold on '
    'the current code - underlying I/O that takes no time, so no per-call credit exists: RateLimitedIO.pause_reads/pause_writes are lifted as cooperative generators (pre-emption outside '
    'the lock), 2..4 streams are interleaved by a schedule vector on a virtual clock and every window is checked.'
)
ASSUMPTIONS = ['Python float encoded as real numbers (IEEE rounding outside the claim)',
               'time.sleep(s) lasts s + ov with 0 <= ov <= eps = 0.01 s (unbounded oversleep would build unbounded credit; stated, not claimed)',
               'burst allowance = (0.25 + eps) * L for windows aligned to call boundaries, + one chunk (<= L/4) per unaligned end',
               'L < 4 is outside the property (chunk size 1 > L/4)']


def _known_f9(cex):
    return bool(cex.get('overlapping_streams'))


def obligations(tier):
    k = '8' if tier == 'quick' else '16'
    py = lambda i, f, d, b, **kw: Ob(i, 'S', d, b, FN, engine='python', module=H, func=f, timeout=1200, twin=False, **kw)  # noqa
    return [
        py('TV', 'tv_limiter', 'encoding validation: z3 transition == real class under a controlled clock', '384 grid points'),
        py('R1', 'r1_step', 'inductive step (read and write): invariant preserved, every byte accounted: d/L <= dt + d(debt); cap never forgives debt',
           'symbolic L >= 1, debt, d <= L/4, duration, overshoot <= eps'),
        py('R2', 'r2_bmc', f'{k}-call BMC: every window of calls obeys bytes <= L*T + (0.25+eps)*L', f'K={k}, L in {{4,1000,2^20,10^9}}', env={'VT_BMC_K': k}),
        py('R3', 'r3_chunk_sites', 'every expression deriving a chunk size from rate_limit satisfies 1 <= size <= L/4', 'L >= 4, N >= 1 unbounded integers'),
        Ob('R3e', 'E', 'chunk sizes the four commands really pass to the backend: 1 <= size <= L/4', '14 limits (4..10^9) x 5 concurrency values = 70',
           ['replicat.repository:Repository.snapshot', 'replicat.repository:Repository.restore', 'replicat.repository:Repository.upload_objects',
            'replicat.repository:Repository.download_objects'], module=H, func='r3e_commands', timeout=600),
        Ob('R7', 'E', 'the local, S3-compatible and B2 adapters honour the chunk size they are given: every read request on the payload stream of upload_stream and every write of download_stream is at most chunk_size bytes (the precondition d <= L/4 of R1/R2 at the adapter level), bytes intact',
           '3 adapters x 5 chunk sizes (1..200000) x 4 payload sizes (0..300000) x up/down = 120', ['replicat.backends.local:Local.upload_stream', 'replicat.backends.s3c:S3Compatible.upload_stream', 'replicat.backends.s3c:_get_stream_hexdigest',
            'replicat.backends.b2:B2.upload_stream', 'replicat.utils:aiter_chunks', 'replicat.backends.s3c:S3Compatible.download_stream', 'replicat.backends.b2:B2.download_stream'],
           module=H, func='r7_adapter_pieces', timeout=600, known={'F14': _h.known_f14}),
        py('R5', 'r5_streams', 'two streams sharing the limiter: aggregate bound', '2 streams x 3 calls, L=1000', known={'F9': _known_f9}),
        Ob('R6', 'E', 'N streams with instantaneous I/O (no per-call credit): window bound under every interleaving of the pause sections; pause methods lifted as cooperative generators, virtual clock',
           'read/write x 2..4 streams x 4^4 schedule patterns x 6 calls each = 1536', FN[2:], module=H, func='r6_streams_instant', timeout=900, shards=4),
        Ob('R4.r', 'S', 'reads through the wrapper return exactly the underlying bytes in order', 'symbolic returned bytes <= 3 (two reads), symbolic sizes',
           [FN[0]], module=H, func='r4_read', timeout=600),
        Ob('R4.w', 'S', 'write/seek/truncate/tell through the wrapper act on the underlying stream', 'symbolic payload <= 3 bytes, unbounded offset/whence/cut/return values',
           [FN[1], U + '_RateLimitedFileWrapper.seek', U + '_RateLimitedFileWrapper.truncate'], module=H, func='r4_write_seek', timeout=600),
    ]
