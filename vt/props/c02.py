from ..core import Ob
from . import c08

G, L, Hh = 'vt.harness.gc', 'vt.harness.loc', 'vt.harness.hist'
F = c08.F
EXPLANATION = (
    'Histories are not enumerated to decide the property; one inductive step is: invariant I = "every listed snapshot of every key family has '
    'all chunks of its table present under that family\'s names with the right bytes". G.* obligations show that one delete_snapshots/clean by '
    'any caller from an ARBITRARY state satisfying I (symbolic state vector: owners in {caller, shared-key user, independent user}, reference '
    'matrix, orphans, command; digits realize()d by z3 through CrossHair, real crypto, real command bodies on a deterministic loop) never removes '
    'or overwrites an object that a remaining snapshot of any family references, and uploads nothing. N0.* (symbolic digests, idealised MAC) show '
    'chunk names are injective in the digest and disjoint between MAC keys, so families cannot alias. H3/H3u then run every history of 3 real '
    'commands (15 op codes: snapshot of 3 overlapping file sets by 3 users, delete-latest, clean) after a first snapshot, with long-lived '
    'Repository objects per user, and restore every snapshot still listed with its owner key, comparing bytes; thorough: length 4, latencies, '
    'concurrency 3. Outside the claim: destructive commands overlapping anything (README: unsupported); thread-level interleavings (C09).'
)
ASSUMPTIONS = c08.ASSUMPTIONS + ['snapshot leaves I intact is shown only by the H obligations (bounded histories), not inductively']


def obligations(tier):
    obs = [o for o in c08.obligations(tier) if o.id.startswith(('N0', 'G.'))]
    obs += [
        Ob('H3', 'E', 'after A\'s first snapshot, every history of 3 commands by users A/B(shared)/C(independent): all listed snapshots restore to the captured bytes',
           '15^3 = 3375 histories', [F['del'], F['clean'], 'replicat.repository:Repository.snapshot', 'replicat.repository:Repository.restore'],
           module=Hh, func='h3', timeout=900, shards=12),
        Ob('H3u', 'E', 'same on an unencrypted repository', 'every 3rd of 3375 histories', [F['del'], F['clean']], module=Hh, func='h3u', timeout=900, shards=4),
        Ob('E.overlap', 'E', 'two non-destructive commands overlapping in time on one store (two snapshots by two clients / on one client object, snapshot || restore, snapshot || listings; backend calls interleaved by 4 latency patterns): every snapshot restores exactly, the overlapped restore is exact',
           '4 kinds x 4 user pairs x 4x4 file sets x 4 latency patterns x concurrency {1,3} = 2048', ['replicat.repository:Repository.snapshot', 'replicat.repository:Repository.restore', 'replicat.repository:Repository._load_snapshots'],
           module=Hh, func='e_overlap', timeout=900, shards=4),
        Ob('E.remote', 'E', 'the same commands through the real S3-compatible and B2 adapters against the fake services (B2: bucket named or given by id, key unrestricted or restricted; every upload a new version; the response to the j-th upload lost after the service stored it): init, snapshot F0, F1, F0 again (uploads nothing), delete the first, restore the listed ones, clean (objects == referenced)',
           '2 adapters x 4 bucket spellings x 9 lost-response positions x concurrency {1,3} x encrypted/not = 288', ['replicat.backends.b2:B2.exists', 'replicat.backends.b2:B2.delete', 'replicat.backends.b2:B2.upload_stream', 'replicat.backends.s3c:S3Compatible.exists', 'replicat.repository:Repository.snapshot', 'replicat.repository:Repository.delete_snapshots'],
           module='vt.harness.remote', func='e_remote_history', timeout=900, shards=4),
        Ob('E.listfault', 'E', 'Local repository with snapshots of A/B/C: clean or delete while the j-th directory scan of the command fails (EIO/EACCES): every snapshot still in the store keeps all its chunk objects (the command may raise)',
           '3 callers x clean/delete x 32 fault positions x 2 error types x 2 data combinations = 768', [F['del'], F['clean'], 'replicat.backends.local:Local.list_files', 'replicat.utils.fs:iterative_scandir'],
           module=Hh, func='e_gc_list_fault', timeout=900, shards=4),
        Ob('H4', 'E', 'histories of 4 commands, latencies [0,2,1,0,3], concurrency 3, fresh or long-lived client objects', '15^4 = 50625 histories',
           [F['del'], F['clean']], module=Hh, func='h4', timeout=3600, shards=32, tiers=('thorough',)),
    ]
    return obs
