from ..core import Ob
from ..harness import c13 as _h   # noqa: F401  (predicate lives next to the obligation)

H = 'vt.harness.c13'
L = 'replicat.backends.local:Local.'
EXPLANATION = (
    'No arithmetic beyond string slicing: the operation history (per name one of 7 action sequences over upload, '
    'upload_stream, delete, overwrite, empty payload), the repository path spelling (9 spellings incl. ".", "./", trailing slashes, "x/../r", '
    'absolute) are digits of a symbolic vector realize()d by z3 through CrossHair; after the history a plain dict is compared with exists / download / '
    'download_stream for every name and list_files for 14 prefixes (incl. prefixes that name a directory without the slash and sibling names sharing '
    'a prefix), through the same and through a fresh Local instance. Known finding F11: names ending in ".tmp" are hidden from listings. '
    'E.remote runs the real S3-compatible and B2 adapters on the deterministic loop against fake services (vt/fakes.py: my reading of ListObjectsV2 paging with continuation tokens, '
    'b2_list_file_names with nextFileName, b2_hide_file with already_hidden/no_such_file, upload URLs, authorisation tokens) with listing pages of 1, 2 and 1000 objects. '
    'Request signing is not checked (C16 is not applicable). E.local / E.two (shared with C03): the directory tree at 8 instants inside Local.upload / upload_stream and with two uploaders of one name, read by a fresh Local: the previous object in full or the new one in full, never a partial object - the atomic-replace clause seen by a concurrent observer. '
)
ASSUMPTIONS = ['names: no name is a directory prefix of another; 7 names over two sets; payload sizes 1..7 and 3*chunk+1 with stream chunk 16',
               'S3/B2: the services are fakes written from the public API descriptions; real sockets, TLS and request signing are outside the claim']


def obligations(tier):
    from . import c03 as _c03
    # 'an upload atomically replaces the object': what an observer sees at any instant inside upload / upload_stream (C13_g: rename before flush)
    atomic = [o for o in _c03.obligations(tier) if o.id in ('E.local', 'E.two')]
    return atomic + [
        Ob('E.store', 'E', 'local backend == dict: exists/download/download_stream/list(prefix) after per-name action sequences, for every path spelling',
           '9 spellings x 7^4 action tuples = 21609', [L + 'upload', L + 'upload_stream', L + 'delete', L + 'list_files', L + 'exists', L + 'download_stream'],
           module=H, func='e_store', timeout=1800, shards=16),
        Ob('E.store2', 'E', 'second name set: single-segment name, non-ASCII name, a name ending in .tmp', '9 x 7^3 = 3087', [L + 'list_files'], module=H,
           func='e_store2', timeout=1200, shards=4, known={'F11': _h.known_f11}),
        Ob('E.race', 'E', 'local backend: while a reader is inside download_stream (any of its first 5 calls on the destination; real file or BytesIO) another client replaces the object (upload / upload_stream, shorter or longer) or deletes it: the reader gets the old or the new object in full',
           '5 old x 5 new sizes x 5 positions x 3 actions x 2 destinations = 750', [L + 'download_stream', L + 'upload', L + 'upload_stream'], module=H, func='e_download_race', timeout=600),
        Ob('E.remote', 'E', 'S3-compatible and B2 adapters against fake services (httpx.MockTransport): == dict through exists/download/download_stream and list_files with listing pages of 1, 2, 1000 objects',
           '2 adapters x 3 page sizes x 7^4 action tuples (+3 fixed objects) = 14406', ['replicat.backends.s3c:S3Compatible.list_files', 'replicat.backends.s3c:S3Compatible.upload_stream',
            'replicat.backends.b2:B2.list_files', 'replicat.backends.b2:B2.delete', 'replicat.backends.b2:B2.upload_stream', 'replicat.backends.b2:B2.exists'],
           module=H, func='e_remote', timeout=1800, shards=16),
    ]
