from ..core import Ob
from ..harness import c13 as _h   # noqa: F401  (predicate lives next to the obligation)

H = 'vt.harness.c13'
L = 'replicat.backends.local:Local.'
EXPLANATION = (
    'Claimed for the local backend. No arithmetic beyond string slicing: the operation history (per name one of 7 action sequences over upload, '
    'upload_stream, delete, overwrite, empty payload), the repository path spelling (9 spellings incl. ".", "./", trailing slashes, "x/../r", '
    'absolute) are digits of a symbolic vector realize()d by z3 through CrossHair; after the history a plain dict is compared with exists / download / '
    'download_stream for every name and list_files for 14 prefixes (incl. prefixes that name a directory without the slash and sibling names sharing '
    'a prefix), through the same and through a fresh Local instance. Known finding F11: names ending in ".tmp" are hidden from listings. '
    'S3 and B2 adapters need fake services behind httpx.MockTransport; they are not part of this claim (see C12/C13 notes in DESIGN.md).'
)
ASSUMPTIONS = ['names: no name is a directory prefix of another; 7 names over two sets; payload sizes 1..7 and 3*chunk+1 with stream chunk 16',
               'S3-compatible and B2 adapters are outside the claim']


def obligations(tier):
    return [
        Ob('E.store', 'E', 'local backend == dict: exists/download/download_stream/list(prefix) after per-name action sequences, for every path spelling',
           '9 spellings x 7^4 action tuples = 21609', [L + 'upload', L + 'upload_stream', L + 'delete', L + 'list_files', L + 'exists', L + 'download_stream'],
           module=H, func='e_store', timeout=1800, shards=16),
        Ob('E.store2', 'E', 'second name set: single-segment name, non-ASCII name, a name ending in .tmp', '9 x 7^3 = 3087', [L + 'list_files'], module=H,
           func='e_store2', timeout=1200, shards=4, known={'F11': _h.known_f11}),
    ]
