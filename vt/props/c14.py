from ..core import Ob
from . import c01, c08

H = 'vt.harness.c14'
Rp = 'replicat.repository:Repository.'
EXPLANATION = (
    'S kernels (CrossHair+z3): LOC/N0 (location builders/parsers inverse; names = MAC(digest), MAC(MAC(digest)), symbolic hex strings and digests), '
    'L1 (shared) the stream layout incl. the extent of a file while it is still being read; X1 lifts snapshot()._chunk_producer and traces it with SYMBOLIC chunk plaintexts under idealised crypto: the queued object is exactly '
    'Enc(KDF(shared, H(p)), p) at loc(MAC(H(p)), MAC(MAC(H(p)))) resp. p at loc(H(p), H(p)), one table index per distinct digest, contiguous '
    'counters and stream ranges; A1/P1 (shared with C01) give the tiling of a file by its recorded ranges and the order restore replays them in; '
    'J1 byte strings tagged as {"!b": base64} round-trip; M1 the pre-1.3 timestamp fallback. E, both directions against vt/ref_format.py - an '
    'independent reader and writer (hashlib + cryptography only, no replicat import): E.write: for configuration x tree x chunking x concurrency '
    'vectors everything replicat wrote (config, key, chunks, snapshot, every storage name) decodes with the reference reader, the ranges tile each '
    'file, nothing outside the scheme is stored; E.read: repositories produced by the reference writer (fixed-size segmentation, modern and pre-1.3 '
    'metadata) are restored byte-identically with the recorded mtime and can be listed.'
)
ASSUMPTIONS = ['the reference implementation encodes my reading of the README scheme and of the parameter layout of the primitives (blake2b keyed MAC / salted keyed KDF, nonce||ciphertext AEAD, scrypt)',
               'idealised crypto in X1; 6 configurations x 8 trees']


def obligations(tier):
    c1 = {o.id: o for o in c01.obligations(tier)}
    c8 = {o.id: o for o in c08.obligations(tier)}
    return [c8['LOC.c'], c8['LOC.s'], c8['N0.fmt'], c1['A1'], c1['L1'], c1['P1'], c1['M1'],
            Ob('X1', 'S', 'queued chunk object = Enc(KDF(shared,H(p)),p) at loc(MAC(H(p)),MAC(MAC(H(p)))); table index per digest; counters; ranges',
               '2 chunks: symbolic 1-byte plaintext and an equal or longer second one, encrypted and not', [Rp + 'snapshot._chunk_producer', Rp + '_chunk_digest_to_location_parts'],
               module=H, func='x1_chunk_object', timeout=900),
            Ob('J1', 'S', 'type_reverse(type_hint(b)) == b, {"!b": base64}; other objects pass through', 'symbolic bytes <= 1 (base64 realises every value)', ['replicat.utils:type_hint', 'replicat.utils:type_reverse'],
               module=H, func='j1_bytes_roundtrip', timeout=900),
            Ob('E.write', 'E', 'replicat writes, the independent reader decodes everything; ranges tile; only scheme names stored', '6 configs x 8 trees x 3 chunkings x 2 concurrency = 288',
               [Rp + 'snapshot', Rp + '_encrypt_snapshot_body', Rp + 'init', Rp + 'serialize'], module=H, func='e_write', timeout=900, shards=4),
            Ob('E.read', 'E', 'the independent writer writes (incl. pre-1.3 metadata, raw UTF-8 JSON, a file whose times are the epoch itself), replicat restores bytes and mtime and lists every file with its recorded modification time', '6 x 8 x legacy/modern x 3 segmentations = 288',
               [Rp + 'restore', Rp + '_decrypt_snapshot_body', Rp + 'unlock', Rp + 'restore_metadata', Rp + '_metadata_ts_to_dt'], module=H, func='e_read', timeout=900, shards=4)]
