from ..core import Ob

H = 'vt.harness.c18'
F = {'dl': 'replicat.repository:Repository._download_snapshot_threadsafe', 'ls': 'replicat.repository:Repository._load_snapshots',
     'dsb': 'replicat.repository:Repository._decrypt_snapshot_body', 'del': 'replicat.repository:Repository.delete_snapshots'}
EXPLANATION = (
    'K1-K3 trace the real _download_snapshot_threadsafe (+ _decrypt_snapshot_body) under CrossHair with the three I/O primitives overridden, a '
    'collision-free hash stub and SYMBOLIC BYTES: K1 the cache entry is absent / any byte string up to 3 bytes / the true content; K3 the entry is '
    'any proper prefix of the content (symbolic cut position, what an interrupted write leaves); K2 the download returns any wrong bytes once and '
    'the call is repeated after the object is intact again. The assertion is behavioural: result equals the cache-less result. '
    'E.cache realises a vector (two commands out of 15 op codes by three users + a fixed delete, shared vs separate cache directory, one of 7 '
    'corruptions of one of the cache files incl. content of another snapshot) and compares list_snapshots / list_files / restore outputs of a '
    'cached client and a cache-less client for every user on the real command stack (real crypto, real cache files on disk).'
)
ASSUMPTIONS = ['hash idealised as injective in K1-K3 (b"H"+x); cache file I/O replaced by an in-object slot in K1-K3',
               'E.cache: histories of 2 free commands + warm-up listings + 1 delete; corruption applied to one cache file']


def obligations(tier):
    return [
        Ob('K1', 'S', 'arbitrary cache entry (absent / any bytes <=3 / true content) never changes the loaded snapshot', 'symbolic bytes <= 3',
           [F['dl'], F['dsb']], module=H, func='k1_cache_entry', timeout=600),
        Ob('K2', 'S', 'a wrong download raises, and leaves nothing in the cache that changes a later run', 'symbolic downloaded bytes <= 3, two calls',
           [F['dl']], module=H, func='k2_bad_download', timeout=600),
        Ob('K3', 'S', 'any proper prefix of the content as cache entry (interrupted write) is transparent', 'symbolic cut position over 72 bytes',
           [F['dl']], module=H, func='k3_prefix', timeout=600),
        Ob('K5', 'S', 'invalid cache entry (symbolic bytes) AND a stored object that is not the snapshot (symbolic bytes or another valid snapshot body): _download_snapshot_threadsafe raises, it never returns unverified content',
           'cache entry <= 2 bytes, stored object <= 2 bytes or a fixed other body', [F['dl']], module=H, func='k5_invalid_cache_wrong_remote', timeout=600),
        Ob('K4', 'E', 'two or three clients storing the same snapshot into a shared cache directory under every interleaving of the statements of _store_cached, while another client deletes its own entry of the same prefix directory (real _delete_cached) after 0..6 steps or never: no error, entry intact, nothing left behind',
           '2 x 3^6 schedule prefixes x 8 delete positions = 11664', ['replicat.repository:Repository._store_cached'], module=H, func='k4_store_race', timeout=600, shards=4),
        Ob('E.cache', 'E', 'cached vs cache-less client: same outputs of list_snapshots/list_files/restore, and same report and same objects in the store after snapshot, delete, clean, list/delete/download-objects and an upload-objects --skip-existing mirror into another (empty) repository with the same cache directory, for A, B(shared), C(independent)',
           '15x15 command pairs x shared/separate cache x 7 corruptions x 3 target files = 9450 vectors' if tier == 'thorough' else '15x15x2x7x3 = 9450 vectors',
           [F['dl'], F['ls'], F['del']], module=H, func='e_cache', timeout=1800, shards=16),
    ]
