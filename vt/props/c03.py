from ..core import Ob

H = 'vt.harness.c03'
F = {'sn': 'replicat.repository:Repository.snapshot', 'del': 'replicat.repository:Repository.delete_snapshots', 'cl': 'replicat.repository:Repository.clean',
     'up': 'replicat.backends.local:Local.upload', 'us': 'replicat.backends.local:Local.upload_stream', 'dt': 'replicat.backends.local:Local._destination_temp',
     'ls': 'replicat.backends.local:Local.list_files'}
EXPLANATION = (
    'E obligations only (said plainly): there is no arithmetic here, the quantifier is over crash points, one permanent fault and completion orders, '
    'and these are the digits of a symbolic vector realize()d by z3 through CrossHair (Confirmed = no unexplored assignment left). E.crash: the k-th '
    'backend mutation of snapshot / delete / clean (5 command variants incl. a shared-key user and deleting the older snapshot) and everything after it '
    'never happens (k = 0..13 covers every prefix of the mutation sequence), under 4 latency patterns and concurrency 1 and 3; E.fault: one backend call '
    '(index 0..29) fails for good. Oracle with FRESH clients on the surviving objects: every listed snapshot restores to the captured bytes, a new '
    'snapshot succeeds, clean succeeds and leaves exactly the referenced chunks; a command whose backend call failed for good must not report success. '
    'E.local: the crash point lies INSIDE Local.upload/upload_stream (8 points: before/after temp creation, half written, fully written, after the first '
    'stream chunk, after rename); the directory tree at that instant is examined by a fresh Local: no *.tmp and no partial object through list_files, '
    'exists, download; the previous object is still there until the new one is complete. E.tmp: _destination_temp for every last-component length 1..255. '
    'Outside: thread-level completion orders of the worker pools (inline executor), fsync/power-loss semantics of the file system.'
)
ASSUMPTIONS = ['a crash is modelled at backend-call granularity for MemBackend (calls are atomic there) and at the listed 8 points inside the local upload',
               'rename(2) is atomic; no fsync reasoning', 'history before the interrupted command: 3 snapshots by A, A, B(shared) + one orphan chunk']


def obligations(tier):
    return [
        Ob('E.crash', 'E', 'kill after any prefix of the backend mutations of snapshot/delete/clean: listed snapshots restore, repository usable, clean exact',
           '5 commands x 14 crash indices x 4 latency patterns x 2 concurrency = 560', [F['sn'], F['del'], F['cl']], module=H, func='e_crash', timeout=1200, shards=8),
        Ob('E.fault', 'E', 'one backend call fails for good: error reported, same oracle', '5 commands x 30 call indices x 4 x 2 = 1200', [F['sn'], F['del'], F['cl']],
           module=H, func='e_fault', timeout=1200, shards=8),
        Ob('E.crash.u', 'E', 'crash indices on an unencrypted repository', '5 x 14 x 2 = 140', [F['sn'], F['del'], F['cl']], module=H, func='e_crash_unenc', timeout=900, shards=2),
        Ob('E.local', 'E', 'crash inside Local.upload/upload_stream: no partial object or *.tmp observable, old object kept until the new one is complete',
           '2 ops x 8 crash points x with/without previous object x 4 sizes = 128', [F['up'], F['us'], F['dt'], F['ls']], module=H, func='e_local_crash', timeout=600),
        Ob('E.two', 'E', 'two threads of one process stream an object to the same name (steered through their read() calls: A reads i pieces, B reads j, A completes, kill): the tree at the kill and after both finish shows a complete payload, no leftovers, no error',
           '3 (same / longer / shorter payload of B) x 4 sizes (1..5 pieces of 8 KiB) x 5 x 6 positions x with/without previous object = 720', [F['us'], F['dt']], module=H, func='e_two_uploaders', timeout=600, shards=2),
        Ob('E.tmp', 'E', 'temporary name: same directory, .tmp suffix, <= 255 bytes', 'last component length 1..255', [F['dt']], module=H, func='e_temp_name', timeout=600),
    ]
