from ..core import Ob

H = 'vt.harness.c09'
F = {'dc': 'replicat.repository:Repository.restore._download_chunk', 'wr': 'replicat.repository:Repository.restore._write_chunk_ref',
     'sn': 'replicat.repository:Repository.snapshot', 'wk': 'replicat.repository:Repository.snapshot._worker',
     'cp': 'replicat.repository:Repository.snapshot._chunk_producer', 'as': 'replicat.repository:Repository._acquire_slot',
     'ex': 'replicat.repository:Repository._exists'}
EXPLANATION = (
    'Schedules become solver variables. T1/T2: the thread bodies restore()._download_chunk (tail) and _write_chunk_ref are lifted from the current '
    'source and turned into cooperative generators with a pre-emption point before every statement outside `with <lock>`; 2-3 instances are advanced '
    'by a schedule whose digits are a symbolic vector realize()d by z3 through CrossHair (every prefix of length 10 / 7, then a fair drain) (the race fixed in c218744 is found as schedule [1,1,1] -> KeyError in 2 s). '
    'T3: the real slot wrappers (_exists/_download/_upload_data/_delete over _acquire_slot) on a deterministic loop with latencies and one failing call '
    'from a symbolic vector: in-flight <= N at all times, all slots back after success and failure. T5: the whole snapshot() is recompiled from the '
    'current source with the producer thread body as a generator and pre-emption hooks in the upload worker (before every statement and BETWEEN the '
    'operands of its loop condition); a vector selects concurrency, a producer-step pattern applied at every hook and every loop step, file sizes, '
    'backend latencies and an optional permanent upload failure; the result must equal the sequential run. '
    'Outside: pre-emption inside a statement other than the worker\'s loop condition; loader/writer pools beyond T1/T2; real OS threads.'
)
ASSUMPTIONS = ['pre-emption granularity: statement boundaries (plus the operands of the worker loop condition); lock bodies are atomic',
               'T1: every schedule prefix of length 10 over 2 threads, T1.3/T2: length 7 over 3 threads, followed by a fair drain; T5 uses 12 producer-step patterns x 5 latency patterns',
               'inline executor for loader/writer pools in T5 (their interleavings are T1/T2)']


def obligations(tier):
    from . import c12 as _c12
    authfail = [o for o in _c12.obligations(tier) if o.id == 'E.authfail']      # 'never a hang', plain and coroutine backends

    return [
        Ob('T1', 'E', 'two loader threads completing one file: metadata restored exactly once under every interleaving', 'all 2^10 schedule prefixes (then fair drain)',
           [F['dc']], module=H, func='t1_race', timeout=900),
        Ob('T1.3', 'E', 'three loader threads, two files sharing a digest', 'all 3^7 schedule prefixes', [F['dc']], module=H,
           func='t1_race3', timeout=900, shards=4),
        Ob('T2', 'E', 'three writer threads (two on one file): lock table ends empty, each part written once', 'all 3^7 schedule prefixes', [F['wr']],
           module=H, func='t2_locks', timeout=900, shards=4),
        Ob('T3', 'E', 'slot discipline: in-flight <= N, all slots returned after success and after a failing call', '3 N x 5 M x 4 op mixes x 6 failing positions x 6 latency patterns = 2160',
           [F['as'], F['ex']], module=H, func='t3_slots', timeout=900, shards=4),
        Ob('T4r', 'E', 'restore under download completion orders/latencies and concurrency 1/2/4 equals the sequential result; in-flight <= N; slots restored; a part write failing in its writer thread (ENOSPC at write 1/3/6) is never reported as success with a damaged file',
           '3 concurrency x 6 latency patterns x 5 file sets x encrypted/not x 4 (no fault / failing write #0, #2, #5) = 720', [F['dc'], 'replicat.repository:Repository.restore', 'replicat.repository:Repository._acquire_slot_threadsafe'],
           module=H, func='t4_restore', timeout=600, shards=2),
        Ob('T5', 'E', 'snapshot under producer/worker interleavings and completion orders equals the sequential run; after a failed upload, an upload ending in CancelledError, or cancellation of the command by its caller: no hang, producer finished, slots back, no snapshot',
           '3 concurrency x 12 producer patterns x 6 file sets x 5 latency patterns x 4 outcomes (ok / backend error / CancelledError / caller cancels) = 4320', [F['sn'], F['wk'], F['cp']], module=H,
           func='t5_snapshot', timeout=1200, shards=8),
    ] + authfail
