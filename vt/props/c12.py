from ..core import Ob
from ..harness import c12 as _h   # noqa: F401

H = 'vt.harness.c12'
L = 'replicat.backends.local:Local.'
EXPLANATION = (
    'E.local: operation (upload, overwrite, upload_stream, '
    'download, download_stream) x fault point inside the transfer (temp creation, open, before the first byte, after the first stream chunk, after '
    'the last, after the copy, at the final rename / truncate) x number of consecutive OSErrors 0..6 x payload size around the stream chunk x '
    'raw-or-wrapped stream are digits of a symbolic vector realize()d by z3 through CrossHair; the real Local methods run with the real backoff '
    'decorator (waits stubbed): for < 5 faults the stored/delivered bytes are exactly the payload, every retry re-reads the payload from offset 0 and '
    'nothing is left behind; for >= 5 the operation ends with OSError after exactly 5 attempts, no object appears and a previous object is intact. '
    'S.fwd traces TQDMIOReader/Writer with SYMBOLIC seek/truncate arguments and results (CrossHair+z3): forwarded unchanged (the rate-limited wrapper '
    'is C20/R4). E.auth: expired authorisation a = 0..6 times, sync and async requires_auth. '
    'E.remote runs the real S3-compatible and B2 adapters on the deterministic loop (back-off waits are virtual) against fake services with a fault plan '
    '(HTTP 503/500/429 with retry-after, connection failure, download dropped after the first chunk, expired token) at the first or second request of the '
    'operation, 0/1/2/3/5/never-ending consecutive times: up to 3 faults are masked with exact bytes and a payload re-read from offset 0, listings stay complete '
    'across pages, a never-ending fault ends in an error after a bounded number of requests. Known finding F10: B2 turns a never-ending 5xx into unbounded '
    're-authentication recursion.'
)
ASSUMPTIONS = ['backoff waits are stubbed (time.sleep of backoff._sync), max_tries and the fibonacci schedule are the real ones',
               'faults are OSErrors raised at 7 (upload) / 6 (download) points of the local transfer', 'S3/B2 services are fakes written from the public API descriptions; sockets, TLS, signing outside the claim']


def obligations(tier):
    return [
        Ob('E.local', 'E', 'local transfers under transient/persistent OSErrors at every point: exact bytes or bounded error, rewound payload, no leftovers',
           '5 ops x 7 points x 0..6 faults x 4 sizes x raw/wrapped = 1960', [L + 'upload', L + 'upload_stream', L + 'download', L + 'download_stream'],
           module=H, func='e_local_faults', timeout=900, shards=4),
        Ob('E.pod', 'E', 'B2: the first 1..3 upload URLs name pods that stop answering after 0..2 body pieces, b2_get_upload_url keeps handing out healthy ones: upload / upload_stream succeed with the exact bytes, payload re-read from its start',
           '2 ops x 4 sizes x 3 dead-pod counts x 3 positions x 2 bucket spellings = 144', ['replicat.backends.b2:B2.upload', 'replicat.backends.b2:B2.upload_stream', 'replicat.backends.b2:B2._get_upload_url_token'], module=H, func='e_b2_pod', timeout=600),
        Ob('E.list', 'E', 'local listing under directory-scan faults: complete or an error, never silently incomplete', '10 scan positions x 3 fault counts x 3 prefixes = 90',
           [L + 'list_files', 'replicat.utils.fs:iterative_scandir'], module=H, func='e_local_list_faults', timeout=300),
        Ob('E.remote', 'E', 'S3-compatible and B2 adapters against fake services: 503/500/429/connection failure/dropped download/expired token x position x 0,1,2,3,5,never-ending consecutive faults: exact bytes, rewound payload, complete listings, bounded error',
           '2 adapters x 7 ops x 6 fault kinds x 6 counts x 3 sizes x 2 positions = 3024', ['replicat.backends.s3c:S3Compatible._put_object_stream', 'replicat.backends.s3c:S3Compatible.download_stream',
            'replicat.backends.b2:B2.upload_stream', 'replicat.backends.b2:B2.download_stream', 'replicat.backends.b2:_wait_and_trigger_reauth', 'replicat.utils:requires_auth'],
           module=H, func='e_remote_faults', timeout=1800, shards=16, known={'F10': _h.known_f10}),
        Ob('S.fwd', 'S', 'TQDM stream wrappers forward seek/truncate/read/write arguments and results unchanged', 'symbolic ints and bytes <= 3',
           ['replicat.utils:TQDMIOBase.seek', 'replicat.utils:TQDMIOBase.truncate', 'replicat.utils:TQDMIOReader.read', 'replicat.utils:TQDMIOWriter.write'],
           module=H, func='s_tqdm_forward', timeout=300),
        Ob('E.auth', 'E', 'requires_auth (sync and async): a expired authorisations in a row are masked, result delivered once', 'a = 0..6 x sync/async',
           ['replicat.utils:requires_auth'], module=H, func='e_auth', timeout=300),
        Ob('E.authfail', 'E', 'requires_auth when authenticate() itself fails (its first call, a re-authentication, both), plain and coroutine backends, 1 or 3 concurrent calls and one call afterwards: the affected call ends with the error, nobody waits for the authorisation lock forever',
           '2 kinds x 4 failure patterns x 0/1 expiry x {1,3} threads = 32', ['replicat.utils:requires_auth'], module=H, func='e_auth_failure', timeout=600),
    ]
