from ..core import Ob

H = 'vt.harness.c12'
L = 'replicat.backends.local:Local.'
EXPLANATION = (
    'Claimed for the local backend, the stream wrappers and the re-authentication wrapper. E.local: operation (upload, overwrite, upload_stream, '
    'download, download_stream) x fault point inside the transfer (temp creation, open, before the first byte, after the first stream chunk, after '
    'the last, after the copy, at the final rename / truncate) x number of consecutive OSErrors 0..6 x payload size around the stream chunk x '
    'raw-or-wrapped stream are digits of a symbolic vector realize()d by z3 through CrossHair; the real Local methods run with the real backoff '
    'decorator (waits stubbed): for < 5 faults the stored/delivered bytes are exactly the payload, every retry re-reads the payload from offset 0 and '
    'nothing is left behind; for >= 5 the operation ends with OSError after exactly 5 attempts, no object appears and a previous object is intact. '
    'S.fwd traces TQDMIOReader/Writer with SYMBOLIC seek/truncate arguments and results (CrossHair+z3): forwarded unchanged (the rate-limited wrapper '
    'is C20/R4). E.auth: expired authorisation a = 0..6 times, sync and async requires_auth. '
    'S3-compatible and B2 adapters (HTTP retries, 429/5xx, re-auth recursion) need fake services behind httpx.MockTransport and are NOT part of this '
    'claim; reading suggests B2._wait_and_trigger_reauth turns a persistent 5xx into unbounded recursion through requires_auth (noted, unverified).'
)
ASSUMPTIONS = ['backoff waits are stubbed (time.sleep of backoff._sync), max_tries and the fibonacci schedule are the real ones',
               'faults are OSErrors raised at 7 (upload) / 6 (download) points of the local transfer', 'S3/B2 adapters outside the claim']


def obligations(tier):
    return [
        Ob('E.local', 'E', 'local transfers under transient/persistent OSErrors at every point: exact bytes or bounded error, rewound payload, no leftovers',
           '5 ops x 7 points x 0..6 faults x 4 sizes x raw/wrapped = 1960', [L + 'upload', L + 'upload_stream', L + 'download', L + 'download_stream'],
           module=H, func='e_local_faults', timeout=900, shards=4),
        Ob('S.fwd', 'S', 'TQDM stream wrappers forward seek/truncate/read/write arguments and results unchanged', 'symbolic ints and bytes <= 3',
           ['replicat.utils:TQDMIOBase.seek', 'replicat.utils:TQDMIOBase.truncate', 'replicat.utils:TQDMIOReader.read', 'replicat.utils:TQDMIOWriter.write'],
           module=H, func='s_tqdm_forward', timeout=300),
        Ob('E.auth', 'E', 'requires_auth (sync and async): a expired authorisations in a row are masked, result delivered once', 'a = 0..6 x sync/async',
           ['replicat.utils:requires_auth'], module=H, func='e_auth', timeout=300),
    ]
