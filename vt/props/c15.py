from ..core import Ob
from . import c01

H = 'vt.harness.c15'
Rp = 'replicat.repository:Repository.'
EXPLANATION = (
    'S.select lifts the sorting + planning statements of restore() from the current source and traces them (CrossHair+z3) for three snapshots with a '
    'SYMBOLIC 3x3 presence matrix (which path is in which snapshot), a symbolic permutation of three timestamps (incl. a year boundary) and a file '
    'filter from a pool of five: the plan holds exactly the matching paths, each once, from the newest snapshot containing it; P1 (shared with C01) '
    'covers the order in which a file\'s ranges are replayed. E.listing realises a vector (states of two paths in three snapshots: absent / version 1 / '
    'version 2, five snapshot filters built from the printed names, five file filters, header on/off) over the real snapshot, list_snapshots, list_files, '
    'restore and delete commands with real crypto and an extra snapshot of an independent user: every printed row (all columns: name, note, timestamp, '
    'file count, size; per file: snapshot, date, path, chunk count, size, digest, mtime) equals the ground truth, newest first; restore writes exactly the '
    'selected versions; delete accepts a printed name and refuses an unknown one before deleting anything. '
    'Outside: the float rounding inside bytes_to_human is used as the oracle\'s formatter, not re-derived.'
)
ASSUMPTIONS = ['regular expressions are drawn from pools (symbolic regexes defeat CrossHair\'s regex support)', 'three snapshots, three paths']


def obligations(tier):
    c1 = {o.id: o for o in c01.obligations(tier)}
    from . import c14 as _c14
    legacy = [o for o in _c14.obligations(tier) if o.id == 'E.read']      # listings of snapshots written by an independent / older writer: true times
    return legacy + [
        Ob('S.select', 'S', 'restore plan = matching paths, each once, from the newest snapshot containing it', '3 snapshots x 2 paths symbolic presence (third path fixed in snapshots 1 and 3), 6 timestamp orders, 4 filters',
           [Rp + 'restore'], module=H, func='s_select', timeout=1200),
        c1['P1'], c1['P1s'],
        Ob('E.listing', 'E', 'list_snapshots / list_files / restore / delete on real histories with filters: rows, order, selection, names accepted by delete',
           '9 x 9 x 5 path-state histories (incl. a newest snapshot holding only an emptied file, and one holding a procfs file whose fstat size is 0) x 5 snapshot filters x 5 file filters x header = 20250, column selection (all / default / reversed subset) rotating with the vector', [Rp + 'list_snapshots', Rp + 'list_files', Rp + 'restore',
           Rp + 'delete_snapshots', Rp + '_load_snapshots'], module=H, func='e_listing', timeout=1800, shards=16),
    ]
