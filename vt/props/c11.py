from ..core import Ob
from . import c01, c10

IR, W = 'vt.harness.c10ir', 'vt.harness.c10w'
EXPLANATION = (
    'Claimed: the algebraic clauses. N4 (z3 on the IR of next_cut, 2-safety by self-composition, all 64-bit sizes, symbolic bytes, max<=bound): a cut '
    'decision in the main regime is a function of the parameters, the key and the bytes from the chunk start to aligned(max) - so from a common '
    'boundary two streams with a common suffix produce the same chunks until the tail zone. SUF checks that consequence end to end on the real '
    'adapter over the source-built cutter for aligned prefix pairs x segmentations. KEY is a bit-exact sat query (two keys, one buffer, '
    'different cuts) replayed natively; W.native (shared with C10) checks on the real adapter that the boundaries for a key do not depend on which '
    'keys the same adapter instance served before. L1 (shared with C01) is the padding clause: every file starts at an aligned stream offset '
    'whatever fstat reports for the previous file. '
    'NOT claimed: the re-synchronisation distance "with failure probability below 1e-15" is a statement about the distribution of CLMUL maxima '
    'on random data; an SMT solver does not decide probabilities.'
)
ASSUMPTIONS = c10.ASSUMPTIONS + ['statistical re-synchronisation bound is outside the claim']


def obligations(tier):
    base = {o.id: o for o in c10.obligations(tier)}
    l1 = [o for o in c01.obligations(tier) if o.id in ('L1', 'L1v')]
    return [base['TV'], base['N0'], base['N4'], base['N5'], base['W.native'], base['W.big']] + l1 + [
            Ob('KEY', 'S', 'bit-exact CLMUL: exists buffer and two keys with different cuts (key personalises boundaries); replayed natively',
               '16-byte buffer, min 4 max 12', ['src/adapters.cpp:key'], engine='python', module=IR, func='key_witness', timeout=900, twin=False),
            Ob('SUF', 'E', 'prefix1+S vs prefix2+S: identical boundaries from the first common one up to the tail zone, any segmentation',
               '4 (min,max) x 7x7 aligned prefix lengths x 4 segmentations x 3 seeds = 2352', ['replicat.utils.adapters:gclmulchunker.__call__', 'src/adapters.cpp:next_cut'],
               module=W, func='c11_suffix', timeout=900, shards=4)]
