from ..core import Ob
from . import c08

L, Hh = 'vt.harness.loc', 'vt.harness.hist'
F = c08.F
EXPLANATION = (
    'N0 (CrossHair+z3, symbolic digests, idealised MAC): the storage name is a function of (digest, family MAC key) only, injective in the digest and '
    'different between MAC keys - identical chunks of one family collide on one object, families never alias. E.dedup realises (data set with shared '
    'blocks / equal-size files / repeated blocks / identical files) x argument order of the first and of the second snapshot x users (same, shared, '
    'independent) x concurrency x directory-or-file arguments and runs the real snapshot command twice on unchanged files with an upload-counting '
    'backend: chunk objects == distinct chunks referenced, the second snapshot by the same or a shared-key user uploads nothing and references the '
    'same objects, an independent user shares no object name. E.hist: any 3 snapshots by 3 users, then the first repeated. Content-definedness of '
    'the boundaries themselves is C10/C11.'
)
ASSUMPTIONS = ['crash-free histories (the property excludes crashes)', 'two workers may both upload the same new chunk before either exists: one object, not counted as a violation']


def obligations(tier):
    n0 = [o for o in c08.obligations(tier) if o.id.startswith('N0')]
    return n0 + [
        Ob('E.dedup', 'E', 'unchanged data snapshotted twice: objects == distinct chunks; same/shared key uploads nothing; independent keys alias nothing',
           '4 data sets x 3x3 argument orders x 3x3 users x 2 concurrency x dir/file args = 1296', ['replicat.repository:Repository.snapshot', F['c2l']],
           module=Hh, func='e_dedup', timeout=900, shards=8),
        Ob('E.ops', 'E', 'histories with deletes and cleans (destructive commands partly issued by another client object of the same user): referenced chunks stored; after clean objects == referenced',
           'every 2nd of 15^3 histories = 1688', ['replicat.repository:Repository.snapshot', F['del'], F['clean']], module=Hh, func='e_dedup_ops', timeout=900, shards=8),
        Ob('E.rate', 'E', 'unchanged data (one file of 130 KB..1.2 MB, 4096..16384-byte chunks) snapshotted twice under different rate limits: the second run uploads nothing and references the same chunk list',
           '4 sizes x 2 first limits x 5 second limits x same/shared key x 2 concurrency = 160', ['replicat.repository:Repository.snapshot', 'replicat.utils.adapters:gclmulchunker.__call__'],
           module=Hh, func='e_dedup_rate', timeout=900, shards=4),
        Ob('E.remote', 'E', 'the same commands through the real S3-compatible and B2 adapters against the fake services (B2: bucket named or given by id, key unrestricted or restricted; every upload a new version; the response to the j-th upload lost after the service stored it): init, snapshot F0, F1, F0 again (uploads nothing), delete the first, restore the listed ones, clean (objects == referenced)',
           '2 adapters x 4 bucket spellings x 9 lost-response positions x concurrency {1,3} x encrypted/not = 288', ['replicat.backends.b2:B2.exists', 'replicat.backends.b2:B2.delete', 'replicat.backends.b2:B2.upload_stream', 'replicat.backends.s3c:S3Compatible.exists', 'replicat.repository:Repository.snapshot', 'replicat.repository:Repository.delete_snapshots'],
           module='vt.harness.remote', func='e_remote_history', timeout=900, shards=4),
        Ob('E.hist', 'E', 'any 3 snapshots by A/B/C: per-family chunk objects == distinct referenced chunks; repeating the first uploads nothing',
           '9^3 = 729 histories', ['replicat.repository:Repository.snapshot'], module=Hh, func='e_dedup_hist', timeout=900, shards=4),
    ]
