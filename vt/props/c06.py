from ..core import Ob
from . import c08

G, H6, Hh = 'vt.harness.gc', 'vt.harness.c06', 'vt.harness.hist'
F = dict(c08.F, ik='replicat.repository:Repository._instantiate_key', ls='replicat.repository:Repository.list_snapshots',
         lf='replicat.repository:Repository.list_files', rs='replicat.repository:Repository.restore', ul='replicat.repository:Repository.unlock')
EXPLANATION = (
    'S kernels under CrossHair+z3 with idealised crypto: _instantiate_key with a SYMBOLIC password (the private section only decrypts under the key '
    'derived from the right password); _decrypt_snapshot_body for symbolic key relations (data is None iff the user key differs, the chunk table '
    'decrypts for the whole family and raises for any other). E obligations with the real crypto and real command bodies: E.access realises '
    '(which of A/B/C own a snapshot) x viewer x one extra command and checks the outputs of list_snapshots, list_files, restore and delete for the '
    'viewer: an independent user sees and restores nothing of the others, a shared-key user sees names without details, restores only its own files, '
    'and every attempt to delete another user\'s snapshot is refused without side effects; E.unlock tries every (key, password) pair; the G.* state-vector '
    'obligations (shared with C02/C08) show that delete/clean by any caller never removes a chunk referenced by another user\'s snapshot, including '
    'mixed requests naming own and foreign snapshots.'
)
ASSUMPTIONS = c08.ASSUMPTIONS + ['strength of scrypt/AEAD is outside the claim (idealised in S, exercised concretely in E)']


def obligations(tier):
    obs = [o for o in c08.obligations(tier) if o.id.startswith('G.')]
    return [
        Ob('S.key', 'S', 'private section decrypts only with the password it was encrypted under', 'symbolic password <= 2 bytes', [F['ik']], module=H6,
           func='s_private_section', timeout=600),
        Ob('S.body', 'S', 'snapshot data None iff other user key; chunk table readable by the family only', 'symbolic key relation', [F['dsb']], module=H6,
           func='s_snapshot_body', timeout=300),
        Ob('E.access', 'E', 'list_snapshots/list_files/restore/delete outputs per viewer follow the key relationships', '8 ownership sets x 3 viewers x 16 extra commands = 384',
           [F['ls'], F['lf'], F['rs'], F['del'], F['load']], module=H6, func='e_access', timeout=900, shards=4),
        Ob('E.unlock', 'E', 'unlock succeeds iff key file and password belong together', '3 keys x 3 passwords', [F['ul'], F['ik']], module=H6, func='e_unlock', timeout=300),
        Ob('E.printed', 'E', 'the key that init / add-key --shared / add-key PRINT (no output path): equals the returned key, private section unreadable, unlocks with its password and with no other (empty, wrong, padded, the owner\'s)',
           '3 commands x 2 kdf x 5 passwords = 30', [F['ik'], 'replicat.repository:Repository._add_key', 'replicat.repository:Repository.init'], module=H6, func='e_printed_key', timeout=300),
        Ob('E.unlock64', 'E', 'blake2b user KDF with a password of 64 / 65 / 100 bytes: refused with nothing written, or only that password unlocks (near misses: changed, shorter, longer, the same first 64 bytes)', '2 key kinds x 7 candidates x 3 lengths = 42',
           [F['ul'], F['ik'], 'replicat.utils.adapters:blake2b.derive'], module=H6, func='e_unlock_long', timeout=300),
    ] + obs
