from ..core import Ob

IR, W = 'vt.harness.c10ir', 'vt.harness.c10w'
CPP = 'src/adapters.cpp:'
PYA = 'replicat.utils.adapters:gclmulchunker.__call__'
EXPLANATION = (
    'src/adapters.cpp is compiled on every run (clang++ -O1 -emit-llvm, stand-in pybind11 header, source unmodified) and the IR of '
    'gclmulchunker::next_cut (key() inlined) is executed symbolically into z3 bit-vectors: min, max, size (64-bit), final, the key and every '
    'buffer byte are symbolic; the loop is unrolled to max<=BOUND with an unwinding assertion (N0); pclmulqdq is an uninterpreted function for the '
    'universal obligations (their truth does not depend on hash values) and bit-exact for witness queries. unsat = holds for every value inside '
    'the bound; sat models are replayed on native code built from the same source. N1 memory safety, N2/N3 length/alignment contract, N4 '
    'locality as 2-safety by self-composition, N5 purity (syntactic). TV validates the translator against native code on every run. The Python '
    'adapter is then checked against that contract: W.stub replaces the cutter by a stub returning ANY cut the contract allows (choice digits '
    'of the symbolic vector) and checks losslessness, no empty chunk, the callee precondition and the final flag, bounds outside the tail '
    'zone; W.native uses the source-built cutter and checks determinism and independence from the segmentation outside the tail zone.'
)
ASSUMPTIONS = [
    'callee precondition WP (final or size >= aligned(max)) is assumed in N1-N4 and established by W.stub clause W2 for the Python adapter',
    'pclmulqdq modelled as an uninterpreted function in N1-N5 (functional consistency only)',
    'loop unrolled for max <= BOUND (quick 64 / N4 32; thorough 128 / N4 64); larger max rely on the loop body being uniform in i (not proved)',
    'the shipped extension cannot be rebuilt (no pybind11 headers); TV reports whether it still agrees with the source',
    'W.stub: <=3 pieces with lengths from a 9-value pool around max and 2*max, 10 parameter pairs, 2 choice digits',
]


def obligations(tier):
    b = '64' if tier == 'quick' else '128'
    b4 = '32' if tier == 'quick' else '64'
    ir = lambda i, f, d, bd, t=900, bound=b: Ob(i, 'S', d, bd, [CPP + 'next_cut', CPP + 'key'], engine='python', module=IR, func=f, timeout=t,  # noqa
                                                env={'VT_IR_BOUND': bound}, twin=False)
    return [
        ir('TV', 'tv_translator', 'translator validation: z3 encoding == native code built from the same source (test-style vectors + seeded buffers)', '142 vectors'),
        ir('N0', 'n0_unwind', 'unwinding assertion: no feasible path exceeds the unrolling bound', f'max <= {b}'),
        ir('N1', 'n1_memsafe', 'every load from the buffer lies in [0,size)', f'max <= {b}, all 64-bit min/size, symbolic bytes'),
        ir('N23', 'n23_contract', 'length contract: non-final size<max -> 0 else min<=r<=max, 4|r, r<=size; final tail rules', f'max <= {b}'),
        ir('N4', 'n4_locality', 'two calls agreeing on bytes [0,aligned(max)) return the same cut whatever sizes, tails, final flags', f'max <= {b4}', 1800, b4),
        ir('N5', 'n5_purity', 'no store, no call but pclmulqdq, loads only from this/descriptor/buffer: no dependence on earlier calls', 'syntactic + all paths'),
        Ob('W.stub', 'E', 'real adapter over a stub obeying the IR contract: lossless, no empty chunk, callee precondition, final flag, bounds outside tail',
           '10 (min,max) x 9^2 piece-length pairs (+ fixed third) x 9 cut choices = 7290', [PYA], module=W, func='w_stub2', timeout=1800, shards=8, tiers=('quick',)),
        Ob('W.stub3', 'E', 'same with three free piece lengths', '10 (min,max) x 9^3 piece-length triples x 9 cut choices = 65610', [PYA], module=W, func='w_stub',
           timeout=3600, shards=32, tiers=('thorough',)),
        Ob('W.native', 'E', 'real adapter over the source-built cutter: deterministic, lossless, bounded, independent of the segmentation outside the tail zone',
           '6 (min,max) x 12x12 split points x 6 lengths x 3 seeds = 15552', [PYA, CPP + 'next_cut'], module=W, func='w_native', timeout=1800, shards=16),
        Ob('W.big', 'E', 'streams of 8..17 MiB as one block vs blocks of 1 MiB / 4 MiB / 3 MiB+7 / 16 MiB over the source-built cutter: lossless, bounded, chunks outside the tail zone identical for every blocking',
           '3 (min,max) up to (1 MiB, 5 MiB) x 3 lengths x 4 blockings x 2 seeds = 72', [PYA, CPP + 'next_cut'], module=W, func='w_big', timeout=900, shards=2),
        Ob('W.key', 'E', 'params repeated/truncated to 16 bytes, default 16 x 0xFF', 'lengths 0..40', [PYA], module=W, func='key_prologue', timeout=300),
    ]
