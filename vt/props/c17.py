from ..core import Ob
from . import c10

H, IR, W = 'vt.harness.c17', 'vt.harness.c10ir', 'vt.harness.c10w'
Rp = 'replicat.repository:Repository.'
EXPLANATION = (
    'S: CrossHair+z3 on the adapter constructors with SYMBOLIC integers gives the accepted parameter sets (gclmulchunker: exactly 1 <= min <= max; '
    'blake2b: exactly 1..64). For every (min,max) in that accepted set - wider than C10\'s valid set, e.g. (1,3) has no aligned length - the z3 '
    'obligation PROG on the LLVM IR of next_cut shows termination/progress (nothing from an empty buffer, r >= 1 from a final non-empty one) and '
    'W.stub shows the Python adapter lossless and free of empty chunks over any cutter obeying the IR contract, including accepted-only pairs. '
    'E: the settings dictionary is a symbolic vector over pools of documented primitives x parameter values {valid, boundary, out of range, mistyped, '
    'wrong adapter kind, unknown key} (25 hashing x 20 chunking x 2; 18 cipher x 13 kdf x 4 encryption modes x 2 baselines) realize()d by z3 through '
    'CrossHair: init either raises with the backend byte-for-byte untouched, or a fresh Repository built from the stored config and the returned key '
    'unlocks, snapshots four files and restores them identically, and a wrong password does not unlock. E.addkey: chains of three add-key calls '
    '(shared/independent, 7 kdf variants incl. invalid ones, issued by different keys, 3 ciphers): every produced key unlocks with its own password '
    'and no other and can back up and restore; rejected calls write nothing.'
)
ASSUMPTIONS = c10.ASSUMPTIONS[:3] + ['settings pools are finite samples of the documented parameter space (listed in vt/harness/c17.py)',
                                     'scrypt cost parameters limited to n <= 8 for speed']


def obligations(tier):
    base = {o.id: o for o in c10.obligations(tier)}
    from . import c06 as _c06
    shared06 = [o for o in _c06.obligations(tier) if o.id in ('E.unlock64', 'E.printed')]      # 'its own password and no other'
    b = '64' if tier == 'quick' else '128'
    return [
        Ob('S.chunker', 'S', 'gclmulchunker(min,max) accepts exactly 1 <= min <= max', 'unbounded symbolic ints', ['replicat.utils.adapters:gclmulchunker.__init__'],
           module=H, func='s_chunker_ctor', timeout=300),
        Ob('S.blake', 'S', 'blake2b(length) accepts exactly 1..64', 'unbounded symbolic int', ['replicat.utils.adapters:blake2b.__init__'], module=H,
           func='s_blake_ctor', timeout=300),
        Ob('PROG', 'S', 'IR of next_cut: for every ACCEPTED (min,max): empty buffer -> 0, final non-empty buffer -> r >= 1', f'max <= {b}',
           ['src/adapters.cpp:next_cut'], engine='python', module=IR, func='n_progress', timeout=900, env={'VT_IR_BOUND': b}, twin=False),
        base['TV'], base['N0'],
        base.get('W.stub') or base['W.stub3'],
        Ob('E.hc', 'E', 'init(settings) over hashing x chunking pools: rejected with the backend untouched, or a fresh process unlocks, backs up, restores',
           '25 x 20 x encrypted/not = 1000', [Rp + 'init', Rp + '_make_config', Rp + '_instantiate_config', 'replicat.utils.adapters:from_config'],
           module=H, func='e_settings_hc', timeout=900, shards=4),
        Ob('E.enc', 'E', 'same over cipher x kdf x encryption-mode pools', '18 x 13 x 4 x 2 = 1872', [Rp + 'init', Rp + '_make_key', Rp + '_instantiate_key',
           Rp + '_validate_init_settings'], module=H, func='e_settings_enc', timeout=900, shards=8),
        Ob('E.cli', 'E', 'CLI: the password add-key stores (-N file / -n string) is byte for byte the one later commands read (-P file / -p string)', '8 file contents x 3 commands',
           ['replicat.utils.cli:make_main_parser'], module=H, func='e_cli_password', timeout=300),
        Ob('E.keyfile', 'E', 'init / add-key --shared / add-key writing the key to a path that is absent, empty, shorter or longer junk, or a previous (longer) key file: the file holds exactly the new key and a fresh process unlocks with its bytes',
           '3 commands x 6 previous states x 3 kdf settings = 54', ['replicat.repository:Repository.init', 'replicat.repository:Repository._add_key'], module=H, func='e_keyfile', timeout=300),
        Ob('E.addkey', 'E', 'chains of 3 add-key calls: each key unlocks with its own password only and works; rejected calls write nothing',
           '2x7x2x7x2x3 = 1176', [Rp + 'add_key', Rp + '_add_key', Rp + 'unlock'], module=H, func='e_addkey', timeout=1200, shards=8),
    ] + shared06
