from ..core import Ob

H = 'vt.harness.c01'
REPO_FUNCS = {
    'cd': 'replicat.repository:Repository.snapshot._chunk_done',
    'sf': 'replicat.repository:Repository.snapshot._stream_files',
    'rs': 'replicat.repository:Repository.restore',
    'wp': 'replicat.repository:Repository._write_file_part',
    'rm': 'replicat.repository:Repository.restore_metadata',
    'sn': 'replicat.repository:Repository.snapshot',
    'fp': 'replicat.repository:Repository._flatten_resolve_paths',
}

EXPLANATION = (
    'Solver-based checking of the real code (CrossHair 0.0.110 + z3). S obligations trace symbolic integers through the '
    "repository's own statements, lifted by AST from the current /repo source: _chunk_done (chunk->file-range attribution, "
    'file sizes and chunk bounds UNBOUNDED integers, 3 files), _stream_files (layout/padding, 3 files, <=3 read pieces each, '
    'sizes otherwise unbounded), the planning loop of restore() (3 references with arbitrary ranges/counters/order; 2x2 '
    'presence matrix), _write_file_part (arbitrary previous length/offset), restore_metadata. Verdict "Confirmed over all '
    'paths" = z3 found no further feasible path; each S/E harness has a reachability twin (post: not _) that must be refuted. '
    'E obligations make the case selector (size indices into a boundary pool, argument-list spelling, pre-existing target '
    'state, concurrency, cipher/hash/chunking configuration) a symbolic vector that is realize()d by the solver and then run '
    'on the real stack (real Local backend, real crypto, real threads, shipped chunker); CrossHair reports Confirmed only '
    'when no unexplored assignment of the vector remains, so these are bounded-exhaustive within the stated pools. '
    'Outside: 16 MiB read-piece boundary end to end (covered symbolically by L1 only), files changing during a snapshot, '
    'symlink naming policy beyond "top-level arguments are resolved, directory walks follow links".'
)
ASSUMPTIONS = [
    'tqdm/logger/display_status are stubbed with empty bodies in lifted closures',
    'interval-partition lemma (machine-checked for two chunks over two files by A2, stated beyond that): if chunks partition [0,total) and each chunk attributes '
    'exactly [max(fs,cs),min(fe,ce)) to each file (A1), the references of a file tile [fs,fe)',
    'E obligations: sizes from the pool {0,1,3,4,5,8,9,15,16,17,33}; chunk (min,max) in {(4,8),(5,10),(1,4),(8,8),(3,9)}',
]


def obligations(tier):
    q = tier == 'quick'
    obs = [
        Ob('A1', 'S', 'one chunk attributes to each of 3 files exactly its overlap [max(fs,cs)-cs,min(fe,ce)-cs), index+counter carried; '
           'non-overlapping files get nothing or a zero-length ref; digest/metadata recorded when the chunk reaches the file end',
           '3 files, unbounded non-decreasing sizes (snapshot sorts by size), one arbitrary chunk', [REPO_FUNCS['cd']], module=H, func='a1_one_chunk', timeout=120),
        Ob('A1e', 'S', 'leading empty files (files are sorted by size) are recorded (zero-length ref, digest, metadata) by the chunk starting at 0',
           '3 files (first one or two empty), unbounded sizes', [REPO_FUNCS['cd']], module=H, func='a1_empty_file_recorded', timeout=120),
        Ob('A2', 'S', 'two consecutive chunks over two files: the recorded references of each file, in counter order, tile the file exactly',
           '2 files, unbounded sizes, arbitrary cut point', [REPO_FUNCS['cd']], module=H, func='a2_two_chunks', timeout=600),
        Ob('L1', 'S', 'stream layout: every file occupies [start,end) of its size, starts aligned with <4 bytes zero padding, in list order; '
           'digest/metadata set; yielded bytes == bytes_with_padding', '3 files, <=3 read pieces per file, piece size symbolic, fstat-reported size independent of the bytes read',
           [REPO_FUNCS['sf']], module=H, func='l1_layout', timeout=600),
        Ob('L1v', 'S', '_stream_files when a listed file has disappeared at open(): the stream ends with the error, or every later file still starts aligned with < 4 bytes of padding',
           'symbolic sizes of the files around it (<= 3 read pieces each), symbolic piece size', [REPO_FUNCS.get('sf', 'replicat.repository:Repository.snapshot')], module=H, func='l1_vanished', timeout=600),
        Ob('P1', 'S', 'restore plan: reference k in counter order is written at offset sum of earlier lengths, from the range start, '
           'for the digest its index names', '1 file, 3 refs, arbitrary ranges/counters/list order/indices',
           [REPO_FUNCS['rs']], module=H, func='p1_plan', timeout=600),
        Ob('P1s', 'S', 'each path is planned once, from the first snapshot (newest) containing it', '2 snapshots x 2 paths presence matrix',
           [REPO_FUNCS['rs']], module=H, func='p1_select', timeout=120),
        Ob('P2', 'S', '_write_file_part writes exactly [off,off+n) and never cuts the file below min(previous, off+n)',
           'previous length/offset unbounded, n<=6', [REPO_FUNCS['wp']], module=H, func='p2_write_part', timeout=120),
        Ob('P2c', 'S', 'content after _write_file_part over a pre-existing 0xff file: the part (symbolic bytes, zeros included) is in place, earlier bytes untouched',
           'symbolic part <= 3 bytes, offset <= 4, previous length <= 6', [REPO_FUNCS['wp']], module=H, func='p2_content', timeout=600),
        Ob('M1', 'S', 'restore_metadata passes the captured ns pair to utime; legacy branch iff ns keys absent', 'unbounded ints',
           [REPO_FUNCS['rm']], module=H, func='m1_metadata', timeout=60),
        Ob('E.sizes', 'E', 'real snapshot+restore is the identity: 2 file sizes over the boundary pool x content kind x chunking',
           '11x11x2x2 = 484 vectors', [REPO_FUNCS['sn'], REPO_FUNCS['rs']], module=H, func='e_sizes', timeout=600, shards=4),
        Ob('E.args', 'E', 'argument-list spellings (dir, files, repeat, overlap, non-normalised, file/dir symlinks, a dir link aliasing a walked dir) x sizes: every reached file '
           'restored exactly once', '10x3x3x2 = 180 vectors', [REPO_FUNCS['fp'], REPO_FUNCS['sn'], 'replicat.utils.fs:flatten_paths'],
           module=H, func='e_args', timeout=600, shards=2),
        Ob('E.pre', 'E', 'pre-existing target state (none/shorter/longer/different/elsewhere) x sizes: restored bytes exact, others untouched',
           '6x4x3x3 = 216 vectors (content kinds incl. all-zero files)', [REPO_FUNCS['rs'], REPO_FUNCS['wp']], module=H, func='e_pre', timeout=600, shards=2),
        Ob('E.cfg', 'E', 'cipher/hash/encryption x chunk bounds x concurrency {1,2,5} x size', '5x5x3x3 = 225 vectors',
           [REPO_FUNCS['sn'], REPO_FUNCS['rs']], module=H, func='e_cfg', timeout=600, shards=2),
        Ob('E.names', 'E', '24 unusual but legal file names (look-alikes of temporaries such as x_k3j9x0aa.tmp, hidden files, control characters, 255-byte names, names of repository areas, shell metacharacters, non-ASCII), top level and below a sub-directory, reached through a directory argument / one by one / as explicit files: all recorded and restored',
           '4 name groups x 3 argument modes x concurrency {1,3} = 24', [REPO_FUNCS['sn'], REPO_FUNCS['rs'], 'replicat.utils.fs:flatten_paths', 'replicat.utils.fs:iterative_scandir'], module=H, func='e_names', timeout=600),
        Ob('E.slow', 'E', 'a store whose chunk uploads take 30 ms (longer than the 25 ms queue time-out of the producer) with 3..5 times more chunks than the queue holds: round trip exact',
           '2 concurrency x 2 configurations x 2 sizes = 8 (real time, ~2 s each)', [REPO_FUNCS['sn'], REPO_FUNCS['rs']], module=H, func='e_slow', timeout=600, shards=4),
        Ob('E.piece', 'E', 'file sizes at and around multiples of the 16 MiB read-piece size (one or two such files in the stream), random and all-zero content, encrypted or not, 64 KiB..1 MiB chunks',
           '6 sizes x 2 contents x 2 configurations x 1-or-2 large files = 48 vectors', [REPO_FUNCS['sn'], REPO_FUNCS['rs']], module=H, func='e_piece', timeout=900, shards=4),
        Ob('E.full', 'E', 'cross product of all pools, 1/97 residue class selected by a linear congruence', 'every 1931st point of the 5.9M-point product = 3045 vectors',
           [REPO_FUNCS['sn'], REPO_FUNCS['rs']], module=H, func='e_full', timeout=3600, tiers=('thorough',), shards=16),
    ]
    from . import c09 as _c09
    # 'every concurrency level': no chunk is lost between producer thread and upload workers under any interleaving (C01_g = a lost last chunk)
    obs += [o for o in _c09.obligations(tier) if o.id.startswith('T5')]
    return obs
