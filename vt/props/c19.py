from ..core import Ob

H = 'vt.harness.c19'
EXPLANATION = (
    'S (CrossHair+z3): the coercions that the different sources apply to one option agree - `concurrent` as a symbolic TOML integer is accepted '
    'exactly when n >= 1; a backend option written as a TOML integer / boolean / float (all symbolic, unbounded) takes that value with that type '
    '(found F16: such values crashed in guess_type; fixed); S.prec: the real BaseBackendConfig.apply_known + apply_env in main()\'s order with SYMBOLIC '
    'presence flags for environment / profile / default section and symbolic text values (<= 2 characters each): the field is the first present level\'s value. '
    'E (symbolic vector realize()d by z3, then the real `replicat.__main__.main()` runs natively on a sys.argv, an os.environ and a TOML file built '
    'from the vector; only _cmd_handler and _configure_logging are replaced by a recorder that calls the real _instantiate_backend on a recording backend '
    'registered as replicat.backends.vtpc - the documented custom-backend mechanism): option (15: repository, password, password-file, key, key-file, '
    'concurrent, hide-progress, cache-directory, no-cache and six backend options with str / int / bool / None / float defaults and one required) x '
    'presence mask over {command line, environment, selected profile, default section} x value variant (text, literal-looking text, TOML-typed values) x '
    'profile mode (selected; not selected although present in the file; selected with a decoy second profile): the effective value equals the value of '
    'the highest-priority level present, with the reference coercion of text, the type included, and the other options keep their built-in values. '
    'E.mutex: each documented mutually exclusive pair is rejected when given together (command line: usage error; one section of the file: InvalidConfig) '
    'and accepted one at a time. Bounded-exhaustive over these vectors, not more: z3 does path bookkeeping for the E obligations.'
)
ASSUMPTIONS = [
    'main() runs once per interpreter: every vector starts from a re-executed replicat.utils.cli (argparse set_defaults writes through to action objects shared with the module-level parent parsers)',
    'alternatives of one setting given at DIFFERENT file levels (password in the default section, password-file in the profile; no-cache vs cache-directory) are outside the claim: each vector gives one spelling of one option',
    'options without an environment variable (everything but repository, password and backend options) have no environment level',
    'the TOML parser, argparse and os.environ are the real ones; values avoid leading dashes',
]


def obligations(tier):
    obs = [
        Ob('E.nat', 'E', 'concurrent as text: cli._natural_number and config._check_natural_number accept the same strings with the same value', '18 strings (signs, spaces, underscores, non-ASCII digits, floats, huge, empty)',
           ['replicat.utils.cli:_natural_number', 'replicat.utils.config:_check_natural_number'], module=H, func='e_natural', timeout=120),
        Ob('S.nat.int', 'S', 'concurrent as a TOML integer: accepted exactly when n >= 1, value n', 'unbounded symbolic int', ['replicat.utils.config:_check_natural_number'],
           module=H, func='s_natural_int', timeout=120),
        Ob('S.native.int', 'S', 'backend option given as a TOML integer keeps value and type, whatever the type of its default', 'unbounded symbolic int x 4 fields',
           ['replicat.utils.config:BaseBackendConfig.apply_known', 'replicat.utils.config:BaseConfig._validate_set'], module=H, func='s_native_int', timeout=120),
        Ob('S.native.bool', 'S', 'same for TOML booleans and floats', 'symbolic bool, symbolic float (not NaN) x 4 fields', ['replicat.utils.config:BaseBackendConfig.apply_known'],
           module=H, func='s_native_bool', timeout=120),
        Ob('S.prec', 'S', 'apply_known(default section updated by profile) then apply_env: first present of environment, profile, default, built-in', 'symbolic presence flags, symbolic text <= 2 chars per level',
           ['replicat.utils.config:BaseBackendConfig.apply_known', 'replicat.utils.config:BaseBackendConfig.apply_env', 'replicat.utils:guess_type'], module=H,
           func='s_precedence_fields', timeout=600),
        Ob('E.prec', 'E', 'real main(): effective value of each option = value of the highest-priority level present (CLI > environment > selected profile > default section > built-in), same coercion',
           '15 options x 16 presence masks x 3 value variants x 3 profile modes = 2160', ['replicat.__main__:main', 'replicat.__main__:_instantiate_backend', 'replicat.utils.config:read_config',
            'replicat.utils.config:Config.apply_known', 'replicat.utils.config:Config.apply_env', 'replicat.utils.config:config_for_backend', 'replicat.utils.cli:parser_for_backend',
            'replicat.utils.cli:make_main_parser'], module=H, func='e_prec', timeout=900, shards=3),
        Ob('E.mutex', 'E', 'mutually exclusive options: rejected together, accepted one at a time', '9 pairs x 3', ['replicat.utils.config:_check_mutually_exclusive', 'replicat.utils.cli:make_main_parser'],
           module=H, func='e_mutex', timeout=300),
    ]
    if tier == 'thorough':
        obs.append(Ob('E.prec.full', 'E', 'E.prec for the commands ls, clean and restore', '2160 x 3 = 6480', ['replicat.__main__:main'], module=H, func='e_prec_full', timeout=1800, shards=9))
    return obs
