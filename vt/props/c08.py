from ..core import Ob

G, L = 'vt.harness.gc', 'vt.harness.loc'
F = {
    'del': 'replicat.repository:Repository.delete_snapshots',
    'clean': 'replicat.repository:Repository.clean',
    'load': 'replicat.repository:Repository._load_snapshots',
    'gcl': 'replicat.repository:Repository.get_chunk_location',
    'pcl': 'replicat.repository:Repository.parse_chunk_location',
    'gsl': 'replicat.repository:Repository.get_snapshot_location',
    'psl': 'replicat.repository:Repository.parse_snapshot_location',
    'c2l': 'replicat.repository:Repository._chunk_digest_to_location_parts',
    'dsb': 'replicat.repository:Repository._decrypt_snapshot_body',
}
EXPLANATION = (
    'One inductive step instead of histories: from an ARBITRARY repository state satisfying the invariant "every listed snapshot of every key '
    'family has all its chunks present under that family\'s names" (state vector: owner of each snapshot in {caller, shared-key user, '
    'independent user}, snapshot x digest reference matrix, orphan objects of either family, command), one delete_snapshots or clean by the '
    'caller is executed and the oracle checks completeness (chunks referenced only by deleted snapshots are gone; after clean the caller-family '
    'chunk objects are exactly the referenced ones) and confinement (other family, config, objects outside data/ and snapshots/ untouched, no '
    'upload). The state vector is a symbolic integer whose mixed-radix digits are realize()d by the solver; the real command bodies then run concretely on a '
    'deterministic event loop with the real AES-GCM/blake2b/scrypt adapters (E obligations: bounded-exhaustive, CrossHair reports Confirmed only when z3 '
    'finds no unexplored digit assignment). A traced variant with idealised crypto was measured at 32 s per path (pure-Python json under tracing) and '
    'adds nothing, because every state bit is consumed while the state is built; it was dropped. LOC/N0 show by symbolic strings that location build/parse are inverse and '
    'that names are injective in the digest and disjoint between MAC keys, which is what lets the tag check recognise own chunks.'
)
ASSUMPTIONS = [
    'idealised crypto in S obligations: hash/MAC/KDF injective, AEAD decrypts only what was encrypted under the same key',
    'thread pools replaced by an inline executor; coroutine scheduling by a deterministic FIFO loop (orders are C09\'s subject)',
    'the chunk and snapshot areas contain only objects written by replicat (as the property states)',
    'bounds: quick 2 snapshots x 2 digests (+1 orphan digest) x 3 owners; thorough 3x3, both callers, non-FIFO completion latencies',
]


def obligations(tier):
    return [
        Ob('LOC.c', 'S', 'parse_chunk_location(get_chunk_location(name, tag)) == (name, tag); prefix and shape', 'hex strings |name|<=4, 4<=|tag|<=6 (functions only slice)',
           [F['gcl'], F['pcl']], module=L, func='loc_chunk', timeout=300),
        Ob('LOC.s', 'S', 'parse_snapshot_location(get_snapshot_location(name, tag)) == (name, tag)', 'hex strings |name|<=4, 2<=|tag|<=6',
           [F['gsl'], F['psl']], module=L, func='loc_snapshot', timeout=300),
        Ob('LOC.len', 'E', 'file name component < 255 bytes and inverse for every pair of lengths up to 128', 'name lengths {1,2,3,8,16,..,128} x tag lengths {4,8,..,128}',
           [F['gcl'], F['gsl']], module=L, func='loc_lengths', timeout=900, tiers=('thorough',)),
        Ob('N0.inj', 'S', 'chunk location injective in the digest (equal iff digests equal), encrypted and not', '2 digests of 1..2 symbolic bytes',
           [F['c2l'], F['gcl']], module=L, func='n0_injective', timeout=600),
        Ob('N0.fmt', 'S', 'name=MAC(d), tag=MAC(MAC(d)); snapshot name=d, tag=MAC(d); another MAC key gives other names', 'digest of 1..3 symbolic bytes',
           [F['c2l'], 'replicat.repository:Repository._snapshot_digest_to_location_parts'], module=L, func='n0_format', timeout=300),
        Ob('G.e', 'E', 'delete/clean with the real crypto from every state of the quick vector', '9 owner pairs x 16 ref matrices x 3 orphan codes x 5 commands = 2160',
           [F['del'], F['clean']], module=G, func='g_quick', timeout=600, shards=8),
        Ob('G.e3', 'E', 'three snapshots (a remaining one sharing chunks with deleted ones): delete both / delete first / clean', '3 owners of the third x 64 ref matrices x 3 commands = 576',
           [F['del'], F['clean']], module=G, func='g_quick3', timeout=600, shards=2),
        Ob('G.many', 'E', 'repositories holding up to 43 snapshots (> 10 x concurrency): clean/delete safe and complete', '6 snapshot counts x 2 concurrency x 3 commands x 3 reference patterns = 108',
           [F['del'], F['clean'], F['load']], module=G, func='g_many', timeout=900),
        Ob('G.hash', 'E', 'the G.e state vectors in encrypted repositories whose hash is blake2b-256 or SHA-256 (digest size != size of the MAC that names objects): delete/clean safe, complete and confined',
           'every 3rd of 2160 vectors x alternating hash = 720', [F['del'], F['clean']], module=G, func='g_hash', timeout=900, shards=2),
        Ob('G.fault', 'E', 'one backend call of clean/delete (k-th download, delete or existence check) fails for good with a backend error, timeout, connection reset or EIO: every snapshot still in the store keeps its chunks (all users), nothing foreign is removed, the command does not report success',
           '2 callers x 9 owner pairs x 16 ref matrices x 3 commands x 6 failing calls = 5184 (error type rotating; thorough: x 4 error types = 20736)', [F['del'], F['clean'], F['load']], module=G, func='g_fault', timeout=900, shards=8, tiers=('quick',)),
        Ob('G.fault', 'E', 'same, full product with the 4 error types', '20736', [F['del'], F['clean'], F['load']], module=G, func='g_fault_full', timeout=1800, shards=16, tiers=('thorough',)),
        Ob('G.bulk', 'E', 'one command removing ~975 / ~1003 / ~2025 / ~3750 chunks (real snapshots of one big file next to a kept and a foreign snapshot): delete, clean after an interrupted delete, delete of two snapshots: chunk objects == referenced set afterwards, the rest untouched',
           '2 modes x 4 sizes x 3 commands x concurrency {2,7} = 48', [F['del'], F['clean']], module='vt.harness.hist', func='g_bulk', timeout=900, shards=4),
        Ob('G.u', 'E', 'same for an unencrypted repository (one family)', '64 ref matrices (2x3) x 3 x 5 = 960', [F['del'], F['clean']],
           module=G, func='g_unenc', timeout=600, shards=4),
        Ob('G.t', 'E', '3 snapshots x 3 digests, 6 orphan codes, both callers, latencies [0,2,1]', 'every 7th of 829440 vectors = 118491',
           [F['del'], F['clean']], module=G, func='g_thorough', timeout=3600, shards=32, tiers=('thorough',)),
    ]
