from ..core import Ob

H = 'vt.harness.c04'
F = {'dc': 'replicat.repository:Repository.restore._download_chunk', 'dl': 'replicat.repository:Repository._download_snapshot_threadsafe',
     'ds': 'replicat.repository:Repository._load_snapshots._download_snapshot', 'rs': 'replicat.repository:Repository.restore',
     'dsb': 'replicat.repository:Repository._decrypt_snapshot_body'}
EXPLANATION = (
    'D1 lifts restore()._download_chunk from the current source and traces it (CrossHair+z3) with SYMBOLIC STORED BYTES (<= 7) at the location of a '
    'referenced digest, collision-free hash and ideal AEAD: on every path the function raises or hands exactly the original plaintext to the '
    'writer - flip/truncate/extend/replace are all instances of "arbitrary bytes". D1o stores a VALID object of the same repository for another '
    '(symbolic) plaintext: every path must raise. D2 traces _download_snapshot_threadsafe with symbolic downloaded bytes, D3 the tag filter of '
    '_load_snapshots with symbolic hex name/tag. E.corrupt realises (encrypted?, object, corruption kind, position) over a real repository with '
    'two versions of a file and runs restore twice with a cache directory: raise, or restore the newest version byte for byte.'
)
ASSUMPTIONS = ['collision resistance / unforgeability of the real primitives are idealised in D1-D3 and only exercised concretely in E.corrupt',
               'E.corrupt: 15 objects (13 chunks of 32-36 bytes, 2 snapshots of ~3 kB); flips/truncations at 40 positions per object']


def obligations(tier):
    return [
        Ob('D1', 'S', 'arbitrary stored chunk bytes: raise or write the original plaintext; encrypted and unencrypted', 'stored <= 7 symbolic bytes',
           [F['dc']], module=H, func='d1_chunk', timeout=600),
        Ob('D1o', 'S', 'a valid chunk object of another plaintext at this location is always rejected', 'other plaintext 1..4 symbolic bytes',
           [F['dc']], module=H, func='d1_valid_other', timeout=600, twin=False),
        Ob('D2', 'S', 'snapshot bytes are accepted iff they hash to the name', 'downloaded <= 3 symbolic bytes or the true content',
           [F['dl'], F['dsb']], module=H, func='d2_snapshot', timeout=600),
        Ob('D3', 'S', 'snapshot loaded only when tag == MAC(digest parsed from the name); that digest is what gets verified', 'hex name 2 chars, tag 4 or 6 chars',
           [F['ds']], module=H, func='d3_tag', timeout=600),
        Ob('E.corrupt', 'E', 'restore (twice, cache on) after corrupting one object: raises or restores the newest version exactly',
           '2 modes x 16 object slots x 7 kinds x <=40 positions = 8960 vectors (3 kinds use 8 positions, delete 1, move = replay under another name + removal 2)',
           [F['rs'], F['dc'], F['dl']], module=H, func='e_corrupt', timeout=1200, shards=16),
        Ob('E.big', 'E', 'one file of ~1100 / ~2500 chunk references (more than any plausible batching window): the chunk object behind the first / 8th / 1002nd / middle / last-1003rd / last reference damaged (flip, truncate, swap, delete, replay, flip + swap of two others): restore raises or is exact',
           '2 modes x 2 sizes x 6 positions x 6 damages x concurrency {2,5} = 288', ['replicat.repository:Repository.restore', 'replicat.repository:Repository._download_chunk'], module=H, func='e_big_corrupt', timeout=1200, shards=8),
    ] + [o for o in __import__('vt.props.c18', fromlist=['x']).obligations(tier) if o.id == 'K5']
