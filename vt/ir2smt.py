"""LLVM-IR -> z3 bit-vector symbolic executor for src/adapters.cpp (gclmulchunker::next_cut).

The unmodified C++ source is compiled on every run with a stand-in pybind11 header (vt/shim) by
clang++ -O1 -emit-llvm; the resulting IR of next_cut (with key() inlined) is executed symbolically:
i64 wrap-around arithmetic, byte-array memory, <2 x i64> vectors, phi/br/select/icmp, pclmulqdq either as an
uninterpreted function (universal obligations) or bit-exact (witness queries and translator validation).
Loops are unrolled up to a bound with an unwinding assertion. Unsupported IR -> IRUnsupported (inconclusive).
"""
from __future__ import annotations

import ctypes
import hashlib
import os
import re
import subprocess
import time
from pathlib import Path

import z3

from .core import REPO, VERIF, WORK


class IRUnsupported(Exception):
    pass


M64 = (1 << 64) - 1


def BV(v, w=64):
    return z3.BitVecVal(v & ((1 << w) - 1), w)


# --------------------------------------------------------------------------- build
def build_ir(workdir: Path) -> Path:
    workdir.mkdir(parents=True, exist_ok=True)
    out = workdir / 'adapters.ll'
    cmd = ['clang++', '-std=c++17', f'-I{VERIF}/vt/shim', '-mpclmul', '-msse4.1', '-O1', '-fno-unroll-loops', '-fno-vectorize',
           '-fno-slp-vectorize', '-S', '-emit-llvm', str(REPO / 'src' / 'adapters.cpp'), '-o', str(out)]
    p = subprocess.run(cmd, capture_output=True, text=True)
    if p.returncode != 0:
        raise IRUnsupported('clang++ failed: ' + p.stderr[-800:])
    return out


_WRAP = r'''
#include "%s"
extern "C" {
void* vt_new(size_t mn, size_t mx, const char* key) {
    pybind11::buffer b{(void*)key, 16};
    try { return new gclmulchunker(mn, mx, b); } catch (...) { return nullptr; }
}
size_t vt_cut(void* c, const char* data, long n, int fin) {
    pybind11::buffer b{(void*)data, n};
    return ((gclmulchunker*)c)->next_cut(b, fin != 0);
}
void vt_free(void* c) { delete (gclmulchunker*)c; }
}
'''


def build_native(workdir: Path):
    """libchunk.so built from the *current* source with the shim (the shipped extension cannot be rebuilt)."""
    workdir.mkdir(parents=True, exist_ok=True)
    src = workdir / 'wrap.cpp'
    src.write_text(_WRAP % str(REPO / 'src' / 'adapters.cpp'))
    lib = workdir / f'libchunk_{os.getpid()}.so'
    cmd = ['g++', '-std=c++17', f'-I{VERIF}/vt/shim', '-mpclmul', '-msse4.1', '-O1', '-shared', '-fPIC', str(src), '-o', str(lib)]
    p = subprocess.run(cmd, capture_output=True, text=True)
    if p.returncode != 0:
        raise IRUnsupported('g++ failed: ' + p.stderr[-800:])
    L = ctypes.CDLL(str(lib))
    L.vt_new.restype = ctypes.c_void_p
    L.vt_new.argtypes = [ctypes.c_size_t, ctypes.c_size_t, ctypes.c_char_p]
    L.vt_cut.restype = ctypes.c_size_t
    L.vt_cut.argtypes = [ctypes.c_void_p, ctypes.c_char_p, ctypes.c_long, ctypes.c_int]
    L.vt_free.argtypes = [ctypes.c_void_p]
    return L


class NativeChunker:
    """Same interface as _replicat_adapters._gclmulchunker, backed by the source-built library."""

    def __init__(self, lib, mn, mx, key):
        self.lib = lib
        self.h = lib.vt_new(mn, mx, bytes(key))
        if not self.h:
            raise ValueError('constructor rejected the arguments')
        self.min_length, self.max_length = mn, mx

    def next_cut(self, buffer, final=False):
        b = bytes(buffer)
        # exact-size heap copy so that nothing predictable follows the data
        buf = ctypes.create_string_buffer(b, len(b)) if b else ctypes.create_string_buffer(1)
        return self.lib.vt_cut(self.h, buf, len(b), 1 if final else 0)

    def next_cut_padded(self, buffer, final, pad):
        """Cut `buffer` while `pad` bytes follow it in memory (to expose reads past the end)."""
        b = bytes(buffer) + bytes(pad)
        buf = ctypes.create_string_buffer(b, len(b))
        return self.lib.vt_cut(self.h, buf, len(buffer), 1 if final else 0)


# --------------------------------------------------------------------------- parse
def parse_function(ll_path: Path, name_sub: str):
    txt = ll_path.read_text()
    m = re.search(r'define [^\n]*@(\S*%s\S*)\(([^\n]*)\)[^\n]*\{\n(.*?)\n\}' % re.escape(name_sub), txt, re.S)
    if not m:
        raise IRUnsupported(f'function {name_sub} not found in IR')
    params = m.group(2)
    nparams = len(re.findall(r'%\d+(?=,|$)', params)) or params.count('%')
    # count top-level parameters: they are numbered %0..%n-1, the entry block is %n
    nparams = len([p for p in re.split(r',\s*(?![^()]*\))', params) if p.strip()])
    body = m.group(3)
    blocks, order, cur = {}, [], None
    entry = '%' + str(nparams)
    for line in body.split('\n'):
        lm = re.match(r'^(\d+):', line)
        if lm:
            cur = '%' + lm.group(1)
            blocks[cur] = []
            order.append(cur)
            continue
        line = line.split(' ; ')[0].strip()
        line = re.sub(r', !\w+(\.\w+)* !\d+', '', line)
        line = re.sub(r' #\d+$', '', line)
        if not line:
            continue
        if cur is None:
            cur = entry
            blocks[cur] = []
            order.append(cur)
        blocks[cur].append(line)
    stores = [l for b in blocks.values() for l in b if re.match(r'^(store|atomicrmw|cmpxchg|fence)\b', l)]
    calls = [l for b in blocks.values() for l in b if ' call ' in (' ' + l) or l.startswith('call ') or l.startswith('tail call') or ' invoke ' in l]
    return {'blocks': blocks, 'order': order, 'entry': entry, 'stores': stores, 'calls': calls, 'text': m.group(0), 'name': m.group(1)}


# --------------------------------------------------------------------------- symbolic state
class Env:
    def __init__(self, tag='', exact=False):
        self.tag = tag
        self.min = z3.BitVec('min', 64)
        self.max = z3.BitVec('max', 64)
        self.k0 = z3.BitVec('k0', 64)
        self.k1 = z3.BitVec('k1', 64)
        self.size = z3.BitVec('size' + tag, 64)
        self.final = z3.Bool('final' + tag)
        self.mem = z3.Array('buf' + tag, z3.BitVecSort(64), z3.BitVecSort(8))
        self.loads = []          # (path condition, byte offset, width in bytes)
        self.other_loads = []    # loads that are neither a field nor the buffer
        self.exact = exact
        self.uf = z3.Function('pclmul', z3.BitVecSort(64), z3.BitVecSort(64), z3.BitVecSort(128))


def clmul_exact(a, b):
    A = z3.ZeroExt(64, a)
    acc = z3.BitVecVal(0, 128)
    for i in range(64):
        acc = acc ^ z3.If(z3.Extract(i, i, b) == 1, A << i, z3.BitVecVal(0, 128))
    return acc


def clmul_py(a, b):
    r = 0
    for i in range(64):
        if (b >> i) & 1:
            r ^= a << i
    return r


_ICMP = {
    'ult': z3.ULT, 'ugt': z3.UGT, 'ule': z3.ULE, 'uge': z3.UGE, 'eq': lambda x, y: x == y, 'ne': lambda x, y: x != y,
    'slt': lambda x, y: x < y, 'sgt': lambda x, y: x > y, 'sle': lambda x, y: x <= y, 'sge': lambda x, y: x >= y,
}


def _width(ty):
    m = re.match(r'i(\d+)$', ty)
    if not m:
        raise IRUnsupported('type ' + ty)
    return int(m.group(1))


class Exec:
    """Path-enumerating symbolic executor with feasibility pruning; merges nothing (the loop body is branch-free at -O1)."""

    def __init__(self, fn, env: Env, pre, unroll: int, timeout_ms=60000):
        self.fn, self.env, self.pre, self.unroll = fn, env, pre, unroll
        self.results = []     # (pc, retval)
        self.unwound = []     # pcs of paths cut by the unrolling bound
        self.solver_calls = 0
        self.solver_s = 0.0
        self.timeout_ms = timeout_ms

    def feasible(self, pc):
        c = z3.simplify(pc)
        if z3.is_true(c):
            return True
        if z3.is_false(c):
            return False
        s = z3.Solver()
        s.set('timeout', self.timeout_ms)
        s.add(c)
        t = time.time()
        r = s.check()
        self.solver_s += time.time() - t
        self.solver_calls += 1
        if r == z3.unknown:
            raise IRUnsupported('solver unknown during path feasibility')
        return r == z3.sat

    def val(self, tok, regs, ty='i64'):
        tok = tok.strip()
        if tok in regs:
            return regs[tok]
        if tok == 'true':
            return z3.BoolVal(True)
        if tok == 'false':
            return z3.BoolVal(False)
        if tok in ('poison', 'undef'):
            return None
        if tok == 'zeroinitializer':
            return [BV(0), BV(0)]
        if re.match(r'^-?\d+$', tok):
            if ty == 'i1':
                return z3.BoolVal(int(tok) != 0)
            return BV(int(tok), _width(ty))
        m = re.match(r'^<i64 (-?\d+), i64 (-?\d+)>$', tok)
        if m:
            return [BV(int(m.group(1))), BV(int(m.group(2)))]
        raise IRUnsupported('operand ' + tok)

    def run(self):
        e = self.env
        regs = {'%0': ('this', None), '%1': ('bufstruct', None), '%2': e.final}
        self.step(self.fn['entry'], None, regs, self.pre, {})
        return self

    def load(self, ptr, ty, pc):
        e = self.env
        kind = ptr[0]
        if kind == 'field':
            base, f, idx = ptr[1], ptr[2], ptr[3]
            if base == 'bufstruct':
                return ('buf', BV(0)) if f == 0 else e.size
            if f == 0:
                return e.min
            if f == 1:
                return e.max
            if f == 2:
                v = [e.k0, BV(27)]
            elif f == 3:
                v = [e.k1, BV(0)]
            else:
                raise IRUnsupported('field %d' % f)
            if ty == '<2 x i64>':
                return v
            return v[idx or 0]
        if kind == 'buf':
            off = ptr[1]
            if ty == '<2 x i64>':
                w = 16
            elif ty.endswith('*'):
                raise IRUnsupported('pointer load from buffer')
            else:
                w = _width(ty) // 8
            e.loads.append((pc, off, w))
            bs = [z3.Select(e.mem, off + i) for i in range(w)]
            word = z3.Concat(*reversed(bs)) if w > 1 else bs[0]
            if ty == '<2 x i64>':
                return [z3.Extract(63, 0, word), z3.Extract(127, 64, word)]
            return word
        e.other_loads.append(ptr)
        raise IRUnsupported('load from ' + repr(ptr))

    def step(self, bname, prev, regs, pc, visits):
        visits = dict(visits)
        visits[bname] = visits.get(bname, 0) + 1
        if visits[bname] > self.unroll:
            self.unwound.append(pc)
            return
        regs = dict(regs)
        insts = self.fn['blocks'][bname]
        newv = {}
        for ins in insts:
            m = re.match(r'(%\d+) = phi (\S+(?: x i64>)?) (.*)', ins)
            if not m:
                continue
            got = False
            for v, b in re.findall(r'\[ ([^,\]]+), (%\d+) \]', m.group(3)):
                if b == prev:
                    newv[m.group(1)] = self.val(v, regs, m.group(2) if m.group(2).startswith('i') else 'i64')
                    got = True
            if not got:
                raise IRUnsupported(f'phi without incoming edge from {prev}: {ins}')
        regs.update(newv)
        for ins in insts:
            if ' = phi ' in ins:
                continue
            r = self.exec_ins(ins, regs, pc, bname, visits)
            if r == 'stop':
                return

    def exec_ins(self, ins, regs, pc, bname, visits):
        e = self.env
        m = re.match(r'(%\d+) = getelementptr (?:inbounds )?(%[\w."]+(?:::\w+")?), \S+ (%\d+), i64 0, i32 (\d+)(?:, i64 (\d+))?$', ins)
        if m:
            base = regs[m.group(3)]
            if base[0] not in ('this', 'bufstruct'):
                raise IRUnsupported('struct gep on ' + repr(base))
            regs[m.group(1)] = ('field', base[0], int(m.group(4)), int(m.group(5)) if m.group(5) else None)
            return
        m = re.match(r'(%\d+) = getelementptr (?:inbounds )?i8, i8\* (%\d+), i64 (%?-?\d+)$', ins)
        if m:
            base = regs[m.group(2)]
            if base[0] != 'buf':
                raise IRUnsupported('i8 gep on ' + repr(base))
            regs[m.group(1)] = ('buf', base[1] + self.val(m.group(3), regs))
            return
        m = re.match(r'(%\d+) = bitcast \S+(?: x i64>)?\*? (%\d+) to ', ins)
        if m:
            regs[m.group(1)] = regs[m.group(2)]
            return
        m = re.match(r'(%\d+) = load (<2 x i64>|i\d+|i8\*), \S+(?: x i64>)?\*+ (%\d+)(?:, align \d+)?$', ins)
        if m:
            regs[m.group(1)] = self.load(regs[m.group(3)], m.group(2), pc)
            return
        m = re.match(r'(%\d+) = (add|sub|mul|shl|lshr|ashr|and|or|xor|udiv|urem|sdiv|srem)((?: nuw| nsw| exact)*) (i\d+|<2 x i64>) ([^,]+), (.+)$', ins)
        if m:
            op, ty = m.group(2), m.group(4)
            a, b = self.val(m.group(5), regs, ty if ty != '<2 x i64>' else 'i64'), self.val(m.group(6), regs, ty if ty != '<2 x i64>' else 'i64')

            def f(x, y):
                if z3.is_bool(x) or z3.is_bool(y):
                    return {'xor': z3.Xor, 'and': z3.And, 'or': z3.Or}[op](x, y)
                return {'add': lambda: x + y, 'sub': lambda: x - y, 'mul': lambda: x * y, 'shl': lambda: x << y,
                        'lshr': lambda: z3.LShR(x, y), 'ashr': lambda: x >> y, 'and': lambda: x & y, 'xor': lambda: x ^ y,
                        'or': lambda: x | y, 'udiv': lambda: z3.UDiv(x, y), 'urem': lambda: z3.URem(x, y),
                        'sdiv': lambda: x / y, 'srem': lambda: z3.SRem(x, y)}[op]()
            regs[m.group(1)] = [f(x, y) for x, y in zip(a, b)] if isinstance(a, list) else f(a, b)
            return
        m = re.match(r'(%\d+) = icmp (\w+) (i\d+) ([^,]+), (.+)$', ins)
        if m:
            a, b = self.val(m.group(4), regs, m.group(3)), self.val(m.group(5), regs, m.group(3))
            regs[m.group(1)] = _ICMP[m.group(2)](a, b)
            return
        m = re.match(r'(%\d+) = select i1 ([^,]+), (i\d+) ([^,]+), i\d+ (.+)$', ins)
        if m:
            ty = m.group(3)
            regs[m.group(1)] = z3.If(self.val(m.group(2), regs, 'i1'), self.val(m.group(4), regs, ty), self.val(m.group(5), regs, ty))
            return
        m = re.match(r'(%\d+) = (zext|sext|trunc) (i\d+) (\S+) to (i\d+)$', ins)
        if m:
            v = self.val(m.group(4), regs, m.group(3))
            w0, w1 = _width(m.group(3)), _width(m.group(5))
            if z3.is_bool(v):
                v = z3.If(v, BV(1, 1), BV(0, 1))
            if m.group(2) == 'zext':
                r = z3.ZeroExt(w1 - w0, v)
            elif m.group(2) == 'sext':
                r = z3.SignExt(w1 - w0, v)
            else:
                r = z3.Extract(w1 - 1, 0, v)
                if w1 == 1:
                    r = r == 1
            regs[m.group(1)] = r
            return
        m = re.match(r'(%\d+) = insertelement <2 x i64> (\S+), i64 (\S+), i64 (\d+)$', ins)
        if m:
            base = self.val(m.group(2), regs) or [BV(0), BV(0)]
            base = list(base)
            base[int(m.group(4))] = self.val(m.group(3), regs)
            regs[m.group(1)] = base
            return
        m = re.match(r'(%\d+) = extractelement <2 x i64> (%\d+), i64 (\d+)$', ins)
        if m:
            regs[m.group(1)] = regs[m.group(2)][int(m.group(3))]
            return
        m = re.match(r'(%\d+) = (?:tail )?call <2 x i64> @llvm\.x86\.pclmulqdq\(<2 x i64> (\S+), <2 x i64> (\S+), i8 (\d+)\)$', ins)
        if m:
            a, b, imm = self.val(m.group(2), regs), self.val(m.group(3), regs), int(m.group(4))
            x, y = a[imm & 1], b[(imm >> 4) & 1]
            p = clmul_exact(x, y) if e.exact else e.uf(x, y)
            regs[m.group(1)] = [z3.Extract(63, 0, p), z3.Extract(127, 64, p)]
            return
        m = re.match(r'(%\d+) = (?:tail )?call i64 @llvm\.(umin|umax|smin|smax)\.i64\(i64 ([^,]+), i64 ([^)]+)\)$', ins)
        if m:
            a, b = self.val(m.group(3), regs), self.val(m.group(4), regs)
            c = {'umin': z3.ULT(a, b), 'umax': z3.UGT(a, b), 'smin': a < b, 'smax': a > b}[m.group(2)]
            regs[m.group(1)] = z3.If(c, a, b)
            return
        m = re.match(r'br i1 (\S+), label (%\d+), label (%\d+)$', ins)
        if m:
            c = self.val(m.group(1), regs, 'i1')
            for cond, tgt in ((c, m.group(2)), (z3.Not(c), m.group(3))):
                npc = z3.And(pc, cond)
                if self.feasible(npc):
                    self.step(tgt, bname, regs, npc, visits)
            return 'stop'
        m = re.match(r'br label (%\d+)$', ins)
        if m:
            self.step(m.group(1), bname, regs, pc, visits)
            return 'stop'
        m = re.match(r'ret i64 (\S+)$', ins)
        if m:
            self.results.append((pc, self.val(m.group(1), regs)))
            return 'stop'
        raise IRUnsupported('instruction: ' + ins)


def aligned(x):
    return (x + 3) & BV(-4)


def check(formulas, timeout_ms=120000):
    """sat/unsat/unknown + model for the conjunction."""
    s = z3.Solver()
    s.set('timeout', timeout_ms)
    s.add(*formulas)
    t = time.time()
    r = s.check()
    return str(r), (s.model() if r == z3.sat else None), time.time() - t


def ir_hash(fn):
    return hashlib.sha256(fn['text'].encode()).hexdigest()[:16]
