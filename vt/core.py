"""Shared machinery: obligations, the CrossHair driver, verdict protocol, evidence, findings.

Exit codes of a check: 0 = every obligation discharged (known findings printed),
1 = reproduced violation (VIOLATION line), 2 = inconclusive / harness error.
"""
from __future__ import annotations

import ast
import concurrent.futures
import dataclasses
import hashlib
import importlib
import inspect
import json
import os
import re
import shutil
import subprocess
import sys
import time
import traceback
from pathlib import Path
from typing import Any, Callable, Dict, List, Optional

VERIF = Path(__file__).resolve().parent.parent
REPO = Path(os.environ.get('VT_REPO', '/repo'))
VENV_PY = str(VERIF / '.venv' / 'bin' / 'python')
WORK = VERIF / '.work'
_MUT = 'VT_REPO' in os.environ   # mutation trial against a scratch worktree: never touch the committed evidence
EVIDENCE = Path(os.environ['VT_EVIDENCE_DIR']) if os.environ.get('VT_EVIDENCE_DIR') else ((WORK / 'mut_evidence') if _MUT else (VERIF / 'evidence'))
REPLAYS = (WORK / 'mut_replays') if _MUT else (VERIF / 'replays')
FINDINGS_FILE = VERIF / 'known_findings.json'

EXIT_OK, EXIT_VIOLATION, EXIT_INCONCLUSIVE = 0, 1, 2
# exceptions that mean "the harness no longer fits the code" (renamed closure variable, moved anchor): never a violation
HARNESS_ERRORS = ('NameError(', 'AnchorMissing(', 'HarnessError(', 'UnboundLocalError(')


def _harness_attribute_error(raised, module):
    """An AttributeError about a stand-in object of the harness (a stub `self`, a fake file ...) or about an attribute the
    harness looks up on a replicat module means the harness no longer fits the code - inconclusive, never a violation."""
    m = re.match(r"AttributeError\([\"']'(\w+)' object has no attribute", raised)
    if m:
        try:
            cls = getattr(importlib.import_module(module), m.group(1), None)
        except Exception:
            cls = None
        return cls is not None and getattr(cls, '__module__', '').startswith('vt.')
    return raised.startswith(("AttributeError(\"module 'replicat", "AttributeError('module \\'replicat"))


# --------------------------------------------------------------------------- obligations
@dataclasses.dataclass
class Ob:
    """One proof obligation.

    engine 'crosshair': `module`.`func` is a PEP-316 harness function (post: _) whose body
    drives real replicat code; kind 'S' = symbolic data traced through the code, 'E' = a
    symbolic choice vector that is realize()d and then executed concretely.
    engine 'python': `run` is a callable returning a Verdict (used by the z3 engines).
    """
    id: str
    kind: str
    desc: str
    bounds: str
    encodes: List[str] = dataclasses.field(default_factory=list)
    engine: str = 'crosshair'
    module: str = ''
    func: str = ''
    timeout: int = 60
    path_timeout: Optional[float] = None
    twin: bool = True
    run: Optional[Callable[[], 'Verdict']] = None
    env: Dict[str, str] = dataclasses.field(default_factory=dict)
    # finding-id -> predicate(args dict) ; lets a listed finding be recognised and excluded
    known: Dict[str, Callable[[dict], bool]] = dataclasses.field(default_factory=dict)
    tiers: tuple = ('quick', 'thorough')
    shards: int = 1
    assumptions: List[str] = dataclasses.field(default_factory=list)


@dataclasses.dataclass
class Verdict:
    status: str                 # confirmed | refuted | inconclusive
    detail: str = ''
    cex: Optional[dict] = None  # {'call': 'f(..)', 'args': {...}} or engine specific
    solver_s: float = 0.0
    paths: int = 0
    samples: list = dataclasses.field(default_factory=list)
    distinct: int = 0
    extra: dict = dataclasses.field(default_factory=dict)


# --------------------------------------------------------------------------- helpers
def src_hash(qualname: str) -> str:
    """sha256 of the current source text of a repo function, e.g.
    'replicat.repository:Repository.snapshot._chunk_done' (nested defs are found by AST)."""
    modname, _, path = qualname.partition(':')
    if modname.endswith('.cpp') or modname.endswith('.ll'):
        p = REPO / modname
        return hashlib.sha256(p.read_bytes()).hexdigest()[:16]
    file = REPO / (modname.replace('.', '/') + '.py')
    if not file.exists():
        file = REPO / modname.replace('.', '/') / '__init__.py'
    tree = ast.parse(file.read_text())
    node: Any = tree
    for part in path.split('.') if path else []:
        found = None
        for n in ast.walk(node):
            if n is not node and isinstance(n, (ast.FunctionDef, ast.AsyncFunctionDef, ast.ClassDef)) and n.name == part:
                found = n
                break
        if found is None:
            return 'MISSING'
        node = found
    seg = ast.get_source_segment(file.read_text(), node) if node is not tree else file.read_text()
    return hashlib.sha256((seg or '').encode()).hexdigest()[:16]


def tick(tag: str, vec=None):
    """Record one executed path / realised choice vector (called under NoTracing by harnesses)."""
    f = os.environ.get('VT_TICK_FILE')
    if not f:
        return
    try:
        with open(f, 'a') as fh:
            fh.write(json.dumps([tag, vec], default=repr) + '\n')
    except Exception:
        pass


def shard(n: int):
    """[lo, hi) slice of range(n) selected by env VT_SHARD='i/k' (whole range when unset)."""
    spec = os.environ.get('VT_SHARD')
    if not spec:
        return 0, n
    i, k = map(int, spec.split('/'))
    return (n * i) // k, (n * (i + 1)) // k


def digits(k, radices):
    """Mixed-radix digits of the symbolic vector index k, each realize()d separately: CrossHair's decision tree then
    has depth sum(radices) instead of prod(radices) (measured: 2160 vectors, 2160 executions, 39 s)."""
    from crosshair.core import realize
    out = []
    for r in radices:
        out.append(realize(k % r))
        k = k // r
    return out


def load_findings() -> dict:
    if FINDINGS_FILE.exists():
        return json.loads(FINDINGS_FILE.read_text())
    return {'known': [], 'fixed': []}


import threading as _threading
_IMPORT_LOCK = _threading.RLock()


def _harness_line(module: str, func: str) -> tuple:
    with _IMPORT_LOCK:
        mod = importlib.import_module(module)
    fn = getattr(mod, func)
    file = inspect.getsourcefile(fn)
    line = inspect.getsourcelines(fn)[1] + 1  # first line inside the def
    return file, line, fn


_MSG = re.compile(r'^(?P<file>.*?):(?P<line>\d+): (?P<lvl>error|info|warning): (?P<msg>.*)$')
_CALL = re.compile(r'when calling (?P<call>\w+\(.*?\))(?: \(which (?:returns|raises) .*\))?\s*$', re.S)


def parse_call(call: str, fn) -> dict:
    """'f(1, [2], b"x")' -> {'a': 1, 'b': [2], 'c': b'x'} using fn's signature. CrossHair may print aliases with the
    walrus operator (f(v1:=b'', v1)), so the call is evaluated with a capturing stand-in and no builtins."""
    node = ast.parse(call, mode='eval').body
    assert isinstance(node, ast.Call) and isinstance(node.func, ast.Name)
    for n in ast.walk(node):
        if isinstance(n, (ast.Attribute, ast.Lambda, ast.Await, ast.Yield)) or (isinstance(n, ast.Call) and n is not node and not (
                isinstance(n.func, ast.Name) and n.func.id in ('bytearray', 'set', 'frozenset', 'dict', 'list', 'tuple', 'float'))):
            raise ValueError('not a literal call: ' + call)
    captured = {}

    def cap(*a, **k):
        captured['a'], captured['k'] = a, k
    eval(compile(ast.Expression(node), '<cex>', 'eval'), {'__builtins__': {}, node.func.id: cap, 'bytearray': bytearray, 'set': set,
                                                          'frozenset': frozenset, 'dict': dict, 'list': list, 'tuple': tuple, 'float': float})
    sig = inspect.signature(fn)
    ba = sig.bind(*captured['a'], **captured['k'])
    return dict(ba.arguments)


def _run_crosshair(file: str, line: int, timeout: int, path_timeout, env: dict, tickfile: Optional[str]):
    cmd = [VENV_PY, '-m', 'crosshair', 'check', '--report_all', '--unblock', 'EVERYTHING',
           '--per_condition_timeout', str(timeout)]
    if path_timeout:
        cmd += ['--per_path_timeout', str(path_timeout)]
    cmd.append(f'{file}:{line}')
    e = dict(os.environ)
    e.update(env)
    e['PYTHONPATH'] = os.pathsep.join([str(VERIF)] + ([str(REPO)] if str(REPO) != '/repo' else []) + [e.get('PYTHONPATH', '')])
    e['PYTHONDONTWRITEBYTECODE'] = '1'
    e['PYTHONHASHSEED'] = '0'
    if tickfile:
        e['VT_TICK_FILE'] = tickfile
    t0 = time.time()
    try:
        p = subprocess.run(cmd, capture_output=True, text=True, env=e, timeout=timeout * 3 + 120, cwd=str(VERIF))
        out, err, rc = p.stdout, p.stderr, p.returncode
    except subprocess.TimeoutExpired as ex:
        out, err, rc = (ex.stdout or b'').decode() if isinstance(ex.stdout, bytes) else (ex.stdout or ''), 'hard timeout', 99
    return out, err, rc, time.time() - t0


def _read_ticks(tickfile: str):
    n, seen, samples = 0, set(), []
    try:
        with open(tickfile) as fh:
            for l in fh:
                n += 1
                if l not in seen:
                    seen.add(l)
                    if len(samples) < 3:
                        try:
                            samples.append(json.loads(l))
                        except Exception:
                            pass
    except FileNotFoundError:
        pass
    return n, len(seen), samples


def run_crosshair_ob(ob: Ob, workdir: Path, exclude: List[str]) -> Verdict:
    try:
        file, line, fn = _harness_line(ob.module, ob.func)
    except Exception as e:
        return Verdict('inconclusive', f'harness import failed: {e!r}\n{traceback.format_exc()[-1500:]}')
    env = dict(ob.env)
    if exclude:
        env['VT_EXCLUDE'] = ','.join(exclude)
    tickfile = str(workdir / f'{ob.id}.ticks')
    if os.path.exists(tickfile):
        os.unlink(tickfile)
    out, err, rc, dt = _run_crosshair(file, line, ob.timeout, ob.path_timeout, env, tickfile)
    paths, distinct, samples = _read_ticks(tickfile)
    v = Verdict('inconclusive', '', solver_s=round(dt, 2), paths=paths, distinct=distinct, samples=samples)
    msgs = [m.groupdict() for m in map(_MSG.match, out.splitlines()) if m]
    if not msgs or (rc not in (0, 1) and msgs[0]['lvl'] != 'error'):
        # (a counterexample printed by a process that then died at shutdown is still used: it is replayed before it counts)
        v.detail = f'crosshair rc={rc}; stdout={out[-800:]!r}; stderr={err[-1500:]!r}'
        return v
    m = msgs[0]
    if m['lvl'] == 'info' and 'Confirmed over all paths' in m['msg'] and rc == 0:
        v.status = 'confirmed'
        v.detail = m['msg']
        return v
    if m['lvl'] == 'error':
        cm = _CALL.search(m['msg'])
        if cm is None:
            v.detail = 'unparsed crosshair error: ' + m['msg']
            return v
        try:
            args = parse_call(cm.group('call'), fn)
        except Exception as e:
            v.detail = f'counterexample not replayable as literals: {m["msg"]!r} ({e!r})'
            return v
        v.status = 'refuted'
        v.detail = m['msg']
        v.cex = {'module': ob.module, 'func': ob.func, 'args': args, 'call': cm.group('call')}
        return v
    v.detail = m['msg']  # Not confirmed / Unable to meet precondition
    return v


def run_python_ob(ob: Ob, exclude: List[str]) -> Verdict:
    """engine 'python': module.func(exclude) -> dict(status, detail, cex, paths, distinct, samples, extra) runs in its own
    interpreter (z3's Python API is not thread-safe inside the driver)."""
    code = ('import sys, json, importlib\n'
            'm = importlib.import_module(sys.argv[1])\n'
            'r = getattr(m, sys.argv[2])(json.loads(sys.argv[3]))\n'
            'print("\\nPYOB-RESULT " + json.dumps(r, default=repr))\n')
    e = dict(os.environ)
    e.update(ob.env)
    e['PYTHONPATH'] = os.pathsep.join([str(VERIF)] + ([str(REPO)] if str(REPO) != '/repo' else []) + [e.get('PYTHONPATH', '')])
    t0 = time.time()
    try:
        p = subprocess.run([VENV_PY, '-c', code, ob.module, ob.func, json.dumps(exclude)], capture_output=True, text=True, env=e,
                           timeout=ob.timeout, cwd=str(VERIF))
    except subprocess.TimeoutExpired:
        return Verdict('inconclusive', f'timeout after {ob.timeout}s', solver_s=time.time() - t0)
    for l in p.stdout.splitlines():
        if l.startswith('PYOB-RESULT '):
            r = json.loads(l[len('PYOB-RESULT '):])
            return Verdict(r.get('status', 'inconclusive'), r.get('detail', ''), r.get('cex') or (r.get('extra') or {}).get('cex') or {}, round(r.get('solver_s', time.time() - t0), 2),
                           r.get('paths', 0), r.get('samples', []), r.get('distinct', 0), r.get('extra', {}))
    return Verdict('inconclusive', f'engine error rc={p.returncode}: {p.stdout[-500:]} {p.stderr[-1500:]}', solver_s=time.time() - t0)


def make_twin(ob: Ob, workdir: Path) -> Optional[Ob]:
    """Reachability witness: same harness, same preconditions, `post: not _` must be refuted,
    i.e. some input satisfying the preconditions runs to the end with the assertion holding."""
    file, line, fn = _harness_line(ob.module, ob.func)
    doc = inspect.getdoc(fn) or ''
    pres = [l.strip() for l in doc.splitlines() if l.strip().startswith('pre:')]
    raises = [l.strip() for l in doc.splitlines() if l.strip().startswith('raises:')]
    sig = inspect.signature(fn)
    params = ', '.join(f'{n}: {_ann(p.annotation)}' for n, p in sig.parameters.items())
    names = ', '.join(sig.parameters)
    twin_mod = f'twin_{ob.module.replace(".", "_")}_{ob.func}'
    src = (f'from typing import *\nimport {ob.module} as _m\n'
           f'globals().update({{k: v for k, v in vars(_m).items() if not k.startswith("__")}})\n\n'
           f'def {ob.func}__reach({params}) -> bool:\n    """\n'
           + ''.join(f'    {l}\n' for l in pres + raises)
           + f'    post: not _\n    """\n    return _m.{ob.func}({names})\n')
    path = workdir / f'{twin_mod}.py'
    with _IMPORT_LOCK:          # shards of one obligation share the twin module: write it once, atomically
        if not path.exists():
            tmp = workdir / f'.{twin_mod}.{_threading.get_ident()}.tmp'
            tmp.write_text(src)
            os.replace(tmp, path)
    t = dataclasses.replace(ob, id=ob.id + '.reach', module=twin_mod, func=ob.func + '__reach',
                            timeout=max(20, ob.timeout // 2), twin=False, known={})
    t.env = dict(ob.env)
    t.env['VT_TWIN_PATH'] = str(workdir)
    return t


def _ann(a) -> str:
    if isinstance(a, str):
        return a
    if a is inspect.Parameter.empty:
        return 'int'
    s = repr(a)
    if s.startswith('<class '):
        return a.__name__
    return s.replace('typing.', '')


# --------------------------------------------------------------------------- replay
def replay_call(module: str, func: str, args: dict, extra_path: Optional[str] = None) -> dict:
    """Run a harness function concretely (no tracing) in a fresh interpreter on the real code."""
    code = (
        'import sys, json, importlib\n'
        'spec = json.loads(sys.stdin.read())\n'
        'if spec.get("extra_path"): sys.path.insert(0, spec["extra_path"])\n'
        'm = importlib.import_module(spec["module"])\n'
        'args = eval(spec["args"])\n'
        'try:\n'
        '    r = getattr(m, spec["func"])(**args)\n'
        '    print("\\nREPLAY-RESULT " + json.dumps({"returned": repr(r), "ok": bool(r)}))\n'
        'except Exception as e:\n'
        '    import traceback\n'
        '    print("\\nREPLAY-RESULT " + json.dumps({"raised": repr(e), "ok": False, "tb": traceback.format_exc()[-1200:]}))\n'
    )
    e = dict(os.environ)
    e['PYTHONPATH'] = os.pathsep.join([str(VERIF)] + ([str(REPO)] if str(REPO) != '/repo' else []) + [e.get('PYTHONPATH', '')])
    e.pop('VT_EXCLUDE', None)
    e.pop('VT_TICK_FILE', None)
    e['VT_REPLAY'] = '1'
    p = subprocess.run([VENV_PY, '-c', code], input=json.dumps({'module': module, 'func': func, 'args': repr(args), 'extra_path': extra_path}),
                       capture_output=True, text=True, env=e, timeout=600, cwd=str(VERIF))
    for l in p.stdout.splitlines():
        if l.startswith('REPLAY-RESULT '):
            r = json.loads(l[len('REPLAY-RESULT '):])
            r['output'] = '\n'.join(x for x in p.stdout.splitlines() if not x.startswith('REPLAY-RESULT '))[-1500:]
            return r
    return {'ok': None, 'error': (p.stdout[-500:] + p.stderr[-1500:])}


def harness_raises(module: str, func: str) -> List[str]:
    mod = importlib.import_module(module)
    doc = inspect.getdoc(getattr(mod, func)) or ''
    out = []
    for l in doc.splitlines():
        if l.strip().startswith('raises:'):
            out += [x.strip() for x in l.split(':', 1)[1].split(',') if x.strip()]
    return out


def store_replay(prop: str, ob: Ob, cex: dict) -> Path:
    REPLAYS.mkdir(exist_ok=True)
    h = hashlib.sha256(repr(sorted(cex.get('args', {}).items(), key=repr)).encode()).hexdigest()[:10]
    p = REPLAYS / f'{prop}_{ob.id}_{h}.json'
    if ob.engine != 'crosshair':
        p.write_text(json.dumps({'property': prop, 'obligation': ob.id, 'engine': ob.engine, 'ob_module': ob.module, 'ob_func': ob.func, 'env': ob.env,
                                 'model': cex, 'detail': cex.get('detail', ''), 'how': 'the obligation is re-run: it re-derives the encoding from the current source, '
                                 'asks the solver again and replays the model on the real code'}, indent=1, default=repr))
        return p
    p.write_text(json.dumps({'property': prop, 'obligation': ob.id, 'module': cex.get('module'), 'func': cex.get('func'),
                             'args': repr(cex.get('args')), 'call': cex.get('call'), 'detail': cex.get('detail', '')}, indent=1))
    return p


# --------------------------------------------------------------------------- the runner
def run_property(prop: str, tier: str, obligations: List[Ob], explanation: str, level_assumptions: List[str],
                 jobs: int = 16) -> int:
    t_start = time.time()
    workdir = WORK / f'{prop}_{os.getpid()}'
    if workdir.exists():
        shutil.rmtree(workdir)
    workdir.mkdir(parents=True)
    sys.path.insert(0, str(workdir))
    findings = load_findings()
    known_ids = {k['id']: k for k in findings.get('known', []) if k['property'] == prop}
    obs = []
    for o in obligations:
        if tier not in o.tiers:
            continue
        if o.shards > 1:
            for i in range(o.shards):
                e = dict(o.env)
                e['VT_SHARD'] = f'{i}/{o.shards}'
                obs.append(dataclasses.replace(o, id=f'{o.id}#{i}', env=e, shards=1))
        else:
            obs.append(o)
    results: Dict[str, dict] = {}
    violations, inconclusive, known_hit = [], [], []

    def do(ob: Ob):
        rec = {'id': ob.id, 'kind': ob.kind, 'engine': ob.engine, 'desc': ob.desc, 'bounds': ob.bounds,
               'functions_encoded': {q: src_hash(q) for q in ob.encodes}, 'timeout_s': ob.timeout}
        exclude: List[str] = []
        hits = []
        total_s = 0.0
        while True:
            if ob.engine == 'crosshair':
                v = run_crosshair_ob(ob, workdir, exclude)
            else:
                v = run_python_ob(ob, exclude)
            total_s += v.solver_s
            if v.status == 'refuted':
                fid = None
                for k, pred in ob.known.items():
                    if k in known_ids and k not in exclude:
                        try:
                            if pred(v.cex.get('args', v.cex)):
                                fid = k
                                break
                        except Exception:
                            pass
                if fid is not None:
                    hits.append({'finding': fid, 'cex': v.cex.get('call') or repr(v.cex)})
                    exclude.append(fid)
                    continue
            break
        rec.update(verdict=v.status, detail=v.detail[-2000:], solver_s=round(total_s, 2), paths=v.paths,
                   distinct=v.distinct, samples=v.samples, known_findings_hit=hits, extra=v.extra)
        twin_rec = None
        if v.status == 'confirmed' and ob.twin and ob.engine == 'crosshair':
            try:
                t = make_twin(ob, workdir)
                e2 = dict(t.env)
                tv = run_crosshair_ob(dataclasses.replace(t, env=e2), workdir, exclude)
                twin_rec = {'verdict': tv.status, 'detail': tv.detail[-300:], 'solver_s': tv.solver_s}
            except Exception as e:
                twin_rec = {'verdict': 'inconclusive', 'detail': repr(e)}
            rec['reach_twin'] = twin_rec
        return ob, v, rec, hits, twin_rec

    with concurrent.futures.ThreadPoolExecutor(max_workers=jobs) as ex:
        futs = [ex.submit(do, ob) for ob in obs]
        for f in futs:
            ob, v, rec, hits, twin_rec = f.result()
            results[ob.id] = rec
            for h in hits:
                known_hit.append((h['finding'], ob, h['cex']))
            if v.status == 'refuted':
                # replay before reporting
                if ob.engine == 'crosshair':
                    rp = replay_call(v.cex['module'], v.cex['func'], v.cex['args'])
                    declared = harness_raises(ob.module, ob.func)
                    reproduced = rp.get('ok') is False and not any(d in (rp.get('raised') or '') for d in declared)
                    if any((rp.get('raised') or '').startswith(x) for x in HARNESS_ERRORS) or _harness_attribute_error(rp.get('raised') or '', ob.module):
                        reproduced = False
                else:
                    rp = v.extra.get('replay', {'ok': None})
                    reproduced = rp.get('ok') is False
                rec['replay'] = rp
                if reproduced:
                    v.cex['detail'] = v.detail
                    path = store_replay(prop, ob, v.cex)
                    violations.append((ob, path, v))
                else:
                    inconclusive.append((ob, 'counterexample did not reproduce: ' + json.dumps(rp)[:600]))
            elif v.status == 'inconclusive':
                inconclusive.append((ob, v.detail))
            elif twin_rec is not None and twin_rec['verdict'] != 'refuted':
                inconclusive.append((ob, 'reachability twin not refuted (vacuous harness?): ' + twin_rec['detail']))

    # ---- report
    seen_f = {}
    for fid, ob, cex in known_hit:
        seen_f.setdefault(fid, []).append((ob.id, cex))
    for fid, hits in seen_f.items():
        print(f'KNOWN-FINDING: property={prop} {fid} {known_ids[fid]["what"]} :: ' + '; '.join(f'[{o}] {c}' for o, c in hits)[:600])
    for ob, path, v in violations:
        print(f'  counterexample [{ob.id}] {v.detail[:400]}')
        print(f'VIOLATION property={prop} replay={path}')
    for ob, why in inconclusive:
        print(f'INCONCLUSIVE property={prop} obligation={ob.id}: {why[-1800:]}')
    n_ob = len(obs)
    n_dis = sum(1 for r in results.values() if r['verdict'] == 'confirmed' and (r.get('reach_twin') or {'verdict': 'refuted'})['verdict'] == 'refuted')
    evaluations = sum(r['paths'] for r in results.values())
    distinct = sum(r['distinct'] for r in results.values())
    samples = []
    for r in results.values():
        for s in r['samples'][:2]:
            samples.append({'obligation': r['id'], 'case': s})
    if not samples:
        samples = [{'obligation': r['id'], 'desc': r['desc']} for r in list(results.values())[:3]]
    wall = time.time() - t_start
    for r in results.values():
        flag = {'confirmed': 'ok ', 'refuted': 'CEX', 'inconclusive': '???'}[r['verdict']]
        tw = (r.get('reach_twin') or {}).get('verdict', '-')
        print(f'  [{flag}] {r["id"]:<10} {r["kind"]} {r["solver_s"]:>7.1f}s paths={r["paths"]:<6} twin={tw:<9} {r["desc"][:90]}')
    ev = {
        'property_id': prop, 'tier': tier, 'seed': int(os.environ.get('VERIF_SEED', '0') or 0), 'level': 'other',
        'coverage': {
            'explanation': explanation,
            'obligations': n_ob, 'discharged': n_dis,
            'evaluations': evaluations, 'distinct_nontrivial': distinct,
            'rule': 'evaluations = executions of a harness body recorded by the harness itself (one per CrossHair path / realised choice vector / SMT query); '
                    'distinct_nontrivial = distinct recorded (obligation, realised-vector-or-path-signature) lines that reached the final assertion',
            'samples': samples[:12],
            'per_obligation': list(results.values()),
            'solver_time_s': round(sum(r['solver_s'] for r in results.values()), 1),
            'known_findings_reported': [f for f, _, _ in known_hit],
            'repo_head': _repo_head(),
        },
        'assumptions': level_assumptions + sorted({a for o in obs for a in o.assumptions}),
        'wall_s': round(wall, 2),
        'violations': len(violations),
    }
    EVIDENCE.mkdir(exist_ok=True)
    (EVIDENCE / f'{prop}.json').write_text(json.dumps(ev, indent=1, default=repr))
    shutil.rmtree(workdir, ignore_errors=True)
    print(f'{prop} {tier}: {n_dis}/{n_ob} obligations discharged, {len(violations)} violation(s), {len(inconclusive)} inconclusive, {wall:.0f}s')
    if violations:
        return EXIT_VIOLATION
    if inconclusive:
        return EXIT_INCONCLUSIVE
    return EXIT_OK


def _wants_exclude(fn) -> bool:
    try:
        return len(inspect.signature(fn).parameters) >= 1
    except Exception:
        return False


def _repo_head() -> str:
    try:
        h = subprocess.run(['git', '-C', str(REPO), 'rev-parse', '--short', 'HEAD'], capture_output=True, text=True).stdout.strip()
        d = subprocess.run(['git', '-C', str(REPO), 'status', '--porcelain', '--untracked-files=no'], capture_output=True, text=True).stdout.strip()
        return h + ('+dirty' if d else '')
    except Exception:
        return '?'
