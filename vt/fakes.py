"""Fake S3 and B2 services behind httpx.MockTransport (my reading of the public APIs), with fault injection.

S3: PUT/GET/HEAD/DELETE object, ListObjectsV2 with a page size and continuation tokens.
B2: b2_authorize_account, b2_list_buckets, b2_get_upload_url, upload, download by name, b2_list_file_names with
nextFileName, b2_hide_file with already_hidden / no_such_file.
A Fault plan decides per request (matching a predicate) whether to answer with an HTTP error, raise a transport error, or
cut a download stream after j chunks."""
from __future__ import annotations

import json
from urllib.parse import parse_qs, unquote
from xml.sax.saxutils import escape

import httpx


class RequestStorm(SystemExit):
    """More requests than any bounded retry policy would send: abort the event loop at once."""


class FaultPlan:
    """kind in {None, 'status', 'connect', 'drop', 'lost' (request processed, response never arrives)}; applies to the requests for which match(request) is true, starting at the
    `skip`-th such request, for `count` consecutive ones."""

    def __init__(self, kind=None, status=503, match=None, skip=0, count=0, headers=None, drop_after=1, body_pieces=10 ** 6):
        self.kind, self.status, self.match, self.skip, self.left = kind, status, match or (lambda r: True), skip, count
        self.headers = headers or {}
        self.drop_after = drop_after
        self.body_pieces = body_pieces      # how many pieces of a request body the service reads before the fault strikes
        self.hits = 0
        self.seen = 0

    def check(self, request):
        if self.kind is None or self.left <= 0 or not self.match(request):
            return None
        if self.seen < self.skip:
            self.seen += 1
            return None
        self.left -= 1
        self.hits += 1
        return self.kind


class PieceTransport(httpx.AsyncBaseTransport):
    """Unlike httpx.MockTransport (which drains the request body before the handler runs) this transport consumes the
    body piece by piece, so a fault can strike after j pieces of an upload: the client's payload stream is then really left
    in the middle."""

    def __init__(self, svc):
        self.svc = svc

    async def handle_async_request(self, request):
        plan = self.svc.plan
        cut = plan.body_pieces if (plan.kind in ('status', 'connect') and plan.left > 0 and plan.match(request) and plan.seen >= plan.skip) else None
        dead = getattr(self.svc, 'dead_pod', None)
        if dead is not None and dead(str(request.url)):
            # an upload pod that stopped answering: the connection breaks after `dead_after` pieces of the body, every time
            body, n = b'', 0
            async for piece in request.stream:
                if n >= self.svc.dead_after:
                    break
                n += 1
            self.svc.requests.append((request.method, str(request.url)))
            self.svc.dead_hits += 1
            if len(self.svc.requests) > self.svc.max_requests:
                raise RequestStorm()
            raise httpx.ConnectError('injected: upload pod unreachable')
        body, n = b'', 0
        async for piece in request.stream:
            if cut is not None and n >= cut:
                break
            body += piece
            n += 1
        cl = request.headers.get('content-length')
        if cut is None and cl is not None and int(cl) != len(body):
            self.svc.short_bodies.append((request.method, len(body), int(cl)))
        return await self.svc.handle(request, body)


class _DropStream(httpx.AsyncByteStream):
    def __init__(self, data, chunk, after):
        self.data, self.chunk, self.after = data, chunk, after

    async def __aiter__(self):
        n = 0
        for i in range(0, len(self.data), self.chunk):
            if n >= self.after:
                raise httpx.ReadError('connection dropped mid-transfer')
            yield self.data[i:i + self.chunk]
            n += 1
        if n >= self.after and not self.data:
            raise httpx.ReadError('connection dropped')


class FakeS3:
    def __init__(self, bucket='bkt', page=2, plan=None):
        self.bucket, self.page, self.plan = bucket, page, plan or FaultPlan()
        self.objs = {}
        self.requests = []
        self.max_requests = 120
        self.short_bodies = []
        self.uploaded = []           # names of the objects stored, in order (one entry per stored upload)

    def transport(self):
        return PieceTransport(self)

    async def handle(self, request: httpx.Request, body: bytes):
        self._lost = False
        resp = await self._handle(request, body)
        if self._lost:
            # the service did what was asked, the answer never reaches the client
            raise httpx.ReadError('injected: response lost after the request was processed')
        return resp

    async def _handle(self, request: httpx.Request, body: bytes):
        self.requests.append((request.method, request.url.raw_path.decode()))
        if len(self.requests) > self.max_requests:
            raise RequestStorm()
        k = self.plan.check(request)
        if k == 'lost':
            self._lost = True
        if k == 'status':
            return httpx.Response(self.plan.status, headers=self.plan.headers, text='injected')
        if k == 'connect':
            raise httpx.ConnectError('injected connection failure')
        raw = request.url.raw_path.decode()
        path, _, query = raw.partition('?')
        path = unquote(path)
        prefix = '/' + self.bucket
        if path == prefix and request.method == 'GET':
            q = parse_qs(query, keep_blank_values=True)
            pfx = q.get('prefix', [''])[0]
            token = q.get('continuation-token', [None])[0]
            keys = sorted(n for n in self.objs if n.startswith(pfx))
            start = int(token) if token is not None else 0
            page = keys[start:start + self.page]
            more = start + self.page < len(keys)
            xml = '<?xml version="1.0" encoding="UTF-8"?><ListBucketResult xmlns="http://s3.amazonaws.com/doc/2006-03-01/">'
            xml += f'<Name>{self.bucket}</Name><IsTruncated>{"true" if more else "false"}</IsTruncated>'
            for key in page:
                xml += f'<Contents><Key>{escape(key)}</Key><Size>{len(self.objs[key])}</Size></Contents>'
            if more:
                xml += f'<NextContinuationToken>{start + self.page}</NextContinuationToken>'
            xml += '</ListBucketResult>'
            return httpx.Response(200, content=xml.encode())
        if not path.startswith(prefix + '/'):
            return httpx.Response(400, text='bad path')
        key = path[len(prefix) + 1:]
        if request.method == 'PUT':
            if int(request.headers.get('content-length', -1)) != len(body):
                return httpx.Response(400, text='content-length mismatch')
            self.objs[key] = bytes(body)
            self.uploaded.append(key)
            return httpx.Response(200)
        if request.method in ('GET', 'HEAD'):
            if key not in self.objs:
                return httpx.Response(404, text='NoSuchKey')
            data = self.objs[key]
            if request.method == 'HEAD':
                return httpx.Response(200, headers={'content-length': str(len(data))})
            if k == 'drop':
                return httpx.Response(200, headers={'content-length': str(len(data))}, stream=_DropStream(data, 16, self.plan.drop_after))
            return httpx.Response(200, content=data)
        if request.method == 'DELETE':
            self.objs.pop(key, None)
            return httpx.Response(204)
        return httpx.Response(405)


class FakeB2:
    API, DL, UP = 'https://api.fake-b2.test', 'https://dl.fake-b2.test', 'https://up.fake-b2.test/upload/1'

    def __init__(self, bucket='bkt', page=2, plan=None, restricted=False):
        self.bucket, self.page, self.plan = bucket, page, plan or FaultPlan()
        self.bucket_id = 'bid-4f1e'
        self.restricted = restricted      # application key restricted to this bucket (authorize reports it as `allowed`)
        self.objs = {}               # name -> bytes of the newest version (also while a hide marker sits on top of it)
        self.hidden = set()          # names whose newest entry is a hide marker
        self.ids = {}                # name -> fileId of the newest version
        self.older = {}              # name -> [(fileId, bytes, was_hidden)] older versions, oldest first (every upload adds a version)
        self._fid = 0
        self.pods_issued = 0
        self.dead_pod = None         # predicate on the URL: requests to a dead upload pod fail after `dead_after` body pieces
        self.dead_after = 0
        self.dead_hits = 0
        self.uploaded = []
        self.requests = []
        self.max_requests = 120
        self.short_bodies = []
        self.token_n = 0
        self.expire_next = 0         # number of upcoming requests answered with 401 (expired token)
        self.expire_uploads = True   # ... including requests to the upload URL (upload tokens expire too)

    def transport(self):
        return PieceTransport(self)

    def _json(self, status, obj):
        return httpx.Response(status, json=obj)

    def _store(self, name, data):
        if name in self.objs:
            self.older.setdefault(name, []).append((self._id(name), self.objs[name], name in self.hidden))
        self._fid += 1
        self.ids[name] = f'4_z{self._fid:06d}'
        self.objs[name] = bytes(data)
        self.hidden.discard(name)
        self.uploaded.append(name)

    def _id(self, name):
        if name not in self.ids:          # (objects planted by a harness directly in `objs`)
            self._fid += 1
            self.ids[name] = f'4_z{self._fid:06d}'
        return self.ids[name]

    def _drop_version(self, name, fid):
        if name in self.objs and self._id(name) == fid:
            prev = self.older.get(name) or []
            if prev:
                pid, pdata, phid = prev.pop()
                self.objs[name], self.ids[name] = pdata, pid
                (self.hidden.add if phid else self.hidden.discard)(name)
            else:
                del self.objs[name]
                self.ids.pop(name, None)
                self.hidden.discard(name)
            return True
        for i, (vid, _, _) in enumerate(self.older.get(name, [])):
            if vid == fid:
                del self.older[name][i]
                return True
        return False

    async def handle(self, request: httpx.Request, body: bytes):
        self._lost = False
        resp = await self._handle(request, body)
        if self._lost:
            raise httpx.ReadError('injected: response lost after the request was processed')
        return resp

    async def _handle(self, request: httpx.Request, body: bytes):
        url = str(request.url)
        self.requests.append((request.method, url))
        if len(self.requests) > self.max_requests:
            raise RequestStorm()
        if url.endswith('/b2api/v2/b2_authorize_account'):
            self.token_n += 1
            return self._json(200, {'accountId': 'acc', 'authorizationToken': f'tok{self.token_n}', 'apiUrl': self.API, 'downloadUrl': self.DL,
                                    'allowed': {'bucketId': self.bucket_id, 'bucketName': self.bucket} if self.restricted else {'bucketId': None, 'bucketName': None}})
        k = self.plan.check(request)
        if k == 'lost':
            self._lost = True
        if k == 'status':
            return httpx.Response(self.plan.status, headers=self.plan.headers, json={'code': 'injected', 'status': self.plan.status})
        if k == 'connect':
            raise httpx.ConnectError('injected connection failure')
        if self.expire_next > 0 and (self.expire_uploads or not url.startswith(self.UP)):
            self.expire_next -= 1
            return self._json(401, {'code': 'expired_auth_token'})     # (the body of an upload has been consumed by now)
        if not url.startswith(self.UP) and request.headers.get('authorization') != f'tok{self.token_n}':
            return self._json(401, {'code': 'bad_auth_token'})
        if url.endswith('/b2_list_buckets'):
            return self._json(200, {'buckets': [{'bucketId': 'other-id', 'bucketName': 'other-bucket'}, {'bucketId': self.bucket_id, 'bucketName': self.bucket}]})
        if url.endswith(('/b2_get_upload_url', '/b2_list_file_names', '/b2_hide_file')):
            try:
                if json.loads(body).get('bucketId') != self.bucket_id:
                    return self._json(400, {'code': 'bad_bucket_id', 'status': 400})
            except ValueError:
                return self._json(400, {'code': 'bad_json', 'status': 400})
        if url.endswith('/b2_get_upload_url'):
            # every call names a (possibly different) storage pod
            self.pods_issued += 1
            return self._json(200, {'uploadUrl': f'{self.UP}/pod{self.pods_issued}', 'authorizationToken': 'uptok'})
        if url.startswith(self.UP):
            if request.headers.get('authorization') != 'uptok':
                return self._json(401, {'code': 'bad_auth_token'})
            name = unquote(request.headers['x-bz-file-name'])
            if int(request.headers.get('content-length', -1)) != len(body):
                return self._json(400, {'code': 'bad_request'})
            self._store(name, body)
            return self._json(200, {'fileName': name, 'fileId': self.ids[name]})
        if url.startswith(self.DL + '/file/' + self.bucket + '/'):
            name = unquote(request.url.raw_path.decode().split('/file/' + self.bucket + '/', 1)[1])
            if name not in self.objs or name in self.hidden:
                return self._json(404, {'code': 'not_found'})
            data = self.objs[name]
            if request.method == 'HEAD':
                return httpx.Response(200, headers={'content-length': str(len(data))})
            if k == 'drop':
                return httpx.Response(200, headers={'content-length': str(len(data))}, stream=_DropStream(data, 16, self.plan.drop_after))
            return httpx.Response(200, content=data)
        if url.endswith('/b2_list_file_names'):
            p = json.loads(body)
            names = sorted(n for n in self.objs if n not in self.hidden and n.startswith(p.get('prefix', '')))
            start = p.get('startFileName')
            if start is not None:
                names = [n for n in names if n >= start]
            page = names[:min(self.page, p.get('maxFileCount', self.page))]
            nxt = names[len(page)] if len(names) > len(page) else None
            return self._json(200, {'files': [{'fileName': n, 'fileId': self._id(n), 'action': 'upload', 'contentLength': len(self.objs[n])} for n in page], 'nextFileName': nxt})
        if url.endswith('/b2_delete_file_version'):
            p = json.loads(body)
            if not self._drop_version(p.get('fileName'), p.get('fileId')):
                return self._json(400, {'code': 'file_not_present', 'status': 400})
            return self._json(200, {'fileName': p['fileName'], 'fileId': p['fileId']})
        if url.endswith('/b2_hide_file'):
            p = json.loads(body)
            n = p['fileName']
            if n not in self.objs:
                return self._json(400, {'code': 'no_such_file', 'status': 400})
            if n in self.hidden:
                return self._json(400, {'code': 'already_hidden', 'status': 400})
            self.hidden.add(n)
            return self._json(200, {'fileName': n, 'action': 'hide'})
        return self._json(404, {'code': 'unknown_endpoint'})

    def live(self):
        return {n: v for n, v in self.objs.items() if n not in self.hidden}


def s3_backend(service: FakeS3):
    import replicat.backends.s3c as S
    be = S.S3Compatible(service.bucket, key_id='AK', access_key='SK', region='r1', host='s3.fake.test')
    be._client = httpx.AsyncClient(transport=service.transport(), timeout=None, event_hooks={'response': [S._raise_for_status_hook]})
    return be


def b2_backend(service: FakeB2, by_id=False):
    import replicat.backends.b2 as B
    # the connection string may name the bucket or give its id
    be = B.B2(service.bucket_id if by_id else service.bucket, key_id='kid', application_key='appkey')
    be._client = httpx.AsyncClient(transport=service.transport(), timeout=None, event_hooks={'response': [B._raise_for_status_hook]})
    # authorize endpoint is hard-wired to api.backblazeb2.com: the mock transport answers any URL ending in b2_authorize_account
    return be
