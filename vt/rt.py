"""Deterministic runtime for harnesses: mini event loop, inline executor, in-memory backend with
fault/crash/ordering control, idealised crypto adapters, helpers to build real repositories fast."""
from __future__ import annotations

import asyncio
import collections
import concurrent.futures
import contextlib
import heapq
import io
import logging
import os
import queue as _queue
import sys


# --------------------------------------------------------------------------- event loop
WORKER = {'depth': 0}
THREAD_VIOLATIONS = []


FRAMES = []        # executor of every worker frame that is on the stack (innermost last)
PARKED = []        # executors whose worker frame is parked in run_coroutine_threadsafe(...).result(), i.e. waits for the loop thread


class InlineExecutor:
    """ThreadPoolExecutor stand-in: the submitted function runs to completion at submit."""

    def __init__(self, *a, **k):
        pass

    def submit(self, fn, *a, **k):
        f = concurrent.futures.Future()
        WORKER['depth'] += 1          # fn stands for code running on a worker thread, not on the loop thread
        FRAMES.append(self)
        try:
            f.set_result(fn(*a, **k))
        except BaseException as e:  # noqa
            if not isinstance(e, Exception):
                raise
            f.set_exception(e)
        finally:
            FRAMES.pop()
            WORKER['depth'] -= 1
        return f

    def shutdown(self, wait=True, **k):
        # A real pool joins its threads here. Called on the loop thread while one of this pool's threads waits for that very
        # thread (run_coroutine_threadsafe(...).result()), the join never returns: recorded, since the stand-in cannot block.
        if wait and WORKER['depth'] == 0 and any(x is self for x in PARKED):
            n = sum(1 for x in PARKED if x is self)
            THREAD_VIOLATIONS.append(f'deadlock: the loop thread joins a thread pool (shutdown(wait=True) / leaving `with executor`) while {n} of its '
                                     'threads wait for a coroutine that only the loop thread can run')

    def __enter__(self):
        return self

    def __exit__(self, *exc):
        self.shutdown(wait=True)
        return False


class Crash(SystemExit):
    """The process dies here. SystemExit subclass: asyncio re-raises it out of the loop immediately."""


class MiniLoop(asyncio.AbstractEventLoop):
    def __init__(self, budget=400000):
        self._ready = collections.deque()
        self._timers = []
        self._now = 0.0
        self._seq = 0
        self._exc = []
        self._budget = budget
        self.steps = 0

    def get_debug(self):
        return False

    def is_running(self):
        return True

    def is_closed(self):
        return False

    def time(self):
        return self._now

    def create_future(self):
        return asyncio.Future(loop=self)

    def create_task(self, coro, *, name=None, context=None):
        return asyncio.Task(coro, loop=self, name=name)

    def call_soon(self, cb, *args, context=None):
        h = asyncio.Handle(cb, args, self, context)
        self._ready.append(h)
        return h

    call_soon_threadsafe = call_soon

    def call_later(self, delay, cb, *args, context=None):
        return self.call_at(self._now + delay, cb, *args, context=context)

    def call_at(self, when, cb, *args, context=None):
        h = asyncio.TimerHandle(when, cb, args, self, context)
        self._seq += 1
        heapq.heappush(self._timers, (when, self._seq, h))
        return h

    def _timer_handle_cancelled(self, h):
        pass

    def call_exception_handler(self, ctx):
        self._exc.append(ctx)

    def default_exception_handler(self, ctx):
        self._exc.append(ctx)

    def run_in_executor(self, executor, fn, *args):
        if executor is None or not hasattr(executor, 'submit') or isinstance(executor, concurrent.futures.ThreadPoolExecutor):
            executor = InlineExecutor()
        return asyncio.wrap_future(executor.submit(fn, *args), loop=self)

    async def shutdown_asyncgens(self):
        pass

    def _step(self):
        self.steps += 1
        if self.steps > self._budget:
            raise RuntimeError('mini loop: step budget exhausted (hang?)')
        if self._ready:
            h = self._ready.popleft()
            if not h._cancelled:
                h._run()
        elif self._timers:
            when, _, h = heapq.heappop(self._timers)
            self._now = max(self._now, when)
            if not h._cancelled:
                h._run()
        else:
            raise RuntimeError('mini loop: deadlock (nothing ready, no timers)')

    def run_until_complete(self, coro):
        prev = asyncio._get_running_loop()
        asyncio._set_running_loop(self)
        try:
            task = self.create_task(coro)
            while not task.done():
                self._step()
            return task.result()
        finally:
            asyncio._set_running_loop(prev)

    def close(self):
        pass


def run_coroutine_threadsafe(coro, loop):
    """Inline variant of asyncio.run_coroutine_threadsafe for 'threads' that are really the loop thread."""
    cur = asyncio.current_task(loop)
    if cur is not None:
        asyncio.tasks._leave_task(loop, cur)
    depth, WORKER['depth'] = WORKER['depth'], 0       # the loop thread runs the coroutine; the worker only waits
    PARKED.append(FRAMES[-1] if FRAMES and depth > 0 else None)
    try:
        task = loop.create_task(coro)
        while not task.done():
            loop._step()
    finally:
        PARKED.pop()
        WORKER['depth'] = depth
        if cur is not None:
            asyncio.tasks._enter_task(loop, cur)
    f = concurrent.futures.Future()
    if task.exception() is not None:
        f.set_exception(task.exception())
    else:
        f.set_result(task.result())
    return f


class GuardedSlots(asyncio.PriorityQueue):
    """asyncio queues are not thread-safe: they may only be touched on the loop thread (worker threads have to go through
    loop.call_soon_threadsafe / run_coroutine_threadsafe). Touching one while 'on a worker thread' is recorded."""

    def put_nowait(self, item):
        if WORKER['depth'] > 0:
            THREAD_VIOLATIONS.append('asyncio slot queue: put_nowait called from a worker thread (lost wake-ups: a loader can wait forever for a slot that is free)')
        return super().put_nowait(item)

    def get_nowait(self):
        if WORKER['depth'] > 0:
            THREAD_VIOLATIONS.append('asyncio slot queue: get_nowait called from a worker thread (lost wake-ups: a loader can wait forever for a slot that is free)')
        return super().get_nowait()


def guard_slots(repo):
    repo._slots.__class__ = GuardedSlots
    del THREAD_VIOLATIONS[:]
    return repo


class _AsyncioShim:
    def __getattr__(self, n):
        return getattr(asyncio, n)

    run_coroutine_threadsafe = staticmethod(run_coroutine_threadsafe)


class _QueueShim:
    Empty = _queue.Empty
    Full = _queue.Full

    @staticmethod
    def Queue(maxsize=0):
        return _queue.Queue(0)


def patch_repository_for_miniloop():
    """Substitute thread pools / run_coroutine_threadsafe / bounded producer queue in replicat.repository's
    namespace (module attributes only - /repo is not edited)."""
    import replicat.repository as R
    R.ThreadPoolExecutor = InlineExecutor
    R.asyncio = _AsyncioShim()
    R.queue = _QueueShim()
    R.Repository.display_status = lambda self, m: None
    R.Repository.display_danger = lambda self, m: None
    return R


def quiet_repository():
    import replicat.repository as R
    R.Repository.display_status = lambda self, m: None
    R.Repository.display_danger = lambda self, m: None
    logging.getLogger('asyncio').setLevel(logging.CRITICAL)
    return R


# --------------------------------------------------------------------------- in-memory backend
class BackendFault(OSError):
    pass


class MemBackend:
    """Async in-memory object store with call counters, in-flight tracking, virtual latencies,
    one permanent fault and a crash point (counted in backend *mutations*)."""

    MUTATING = ('upload', 'upload_stream', 'delete')

    def __init__(self, objs=None, delays=None, crash_at=None, fail_call=None, fail_op=None, fail_exc=None, hook=None):
        self.objs = dict(objs or {})
        self.fail_exc = fail_exc          # exception factory for the permanent fault (default BackendFault)
        self.hook = hook                  # (opname, nth, fn): fn() runs when that call reaches the service
        self.delays = list(delays or [])
        self.crash_at = crash_at          # the crash_at-th mutation (0-based) and everything after never happens
        self.fail_call = fail_call        # index (over all calls) of the call that fails for good
        self.fail_op = fail_op            # (opname, nth) alternative way of addressing the failing call
        self.calls = 0
        self.mutations = 0
        self.inflight = 0
        self.max_inflight = 0
        self.log = []                     # completed mutations in completion order
        self.counts = collections.Counter()
        self.uploaded_bytes = 0
        self.dead = False
        self._opn = collections.Counter()

    async def _gate(self, op, name):
        if self.dead:
            raise Crash()
        idx = self.calls
        self.calls += 1
        nth = self._opn[op]
        self._opn[op] += 1
        self.counts[op] += 1
        self.inflight += 1
        self.max_inflight = max(self.max_inflight, self.inflight)
        try:
            d = self.delays[idx % len(self.delays)] if self.delays else 0
            await asyncio.sleep(d)
            if self.dead:
                raise Crash()
            if self.fail_call == idx or (self.fail_op is not None and self.fail_op == (op, nth)):
                if self.fail_exc is not None:
                    raise self.fail_exc()
                raise BackendFault(f'injected permanent failure of {op}({name!r})')
            if self.hook is not None and self.hook[:2] == (op, nth):
                self.hook[2]()
            if op in self.MUTATING:
                if self.crash_at is not None and self.mutations >= self.crash_at:
                    self.dead = True
                    raise Crash()
                self.mutations += 1
        finally:
            self.inflight -= 1

    async def exists(self, name):
        await self._gate('exists', name)
        return name in self.objs

    async def upload(self, name, data):
        await self._gate('upload', name)
        self.objs[name] = bytes(data)
        self.uploaded_bytes += len(data)
        self.log.append(('put', name))

    async def upload_stream(self, name, stream, length, chunk_size=128_000):
        parts = []
        while True:
            b = stream.read(chunk_size)
            if not b:
                break
            parts.append(bytes(b))
        await self._gate('upload_stream', name)
        data = b''.join(parts)
        assert len(data) == length, (len(data), length)
        self.objs[name] = data
        self.uploaded_bytes += len(data)
        self.log.append(('put', name))

    async def download(self, name):
        await self._gate('download', name)
        return self.objs[name]

    async def download_stream(self, name, stream, chunk_size=128_000):
        await self._gate('download_stream', name)
        data = self.objs[name]
        stream.truncate(len(data))
        for i in range(0, len(data), chunk_size):
            stream.write(data[i:i + chunk_size])

    async def list_files(self, prefix=''):
        self.counts['list_files'] += 1
        for k in sorted(self.objs):
            if k.startswith(prefix):
                yield k

    async def delete(self, name):
        await self._gate('delete', name)
        self.objs.pop(name, None)
        self.log.append(('del', name))

    async def clean(self):
        self.counts['clean'] += 1

    async def close(self):
        pass


# --------------------------------------------------------------------------- idealised crypto (S obligations only)
class InjHash:
    """Collision-free hash: digest(x) = b'H' + x."""

    def digest(self, data):
        return b'H' + data

    def incremental_hasher(self):
        return _InjInc()


class _InjInc:
    def __init__(self):
        self.v = b''

    def feed(self, d):
        self.v = self.v + d

    def digest(self):
        return b'H' + self.v


class IdealAEAD:
    """decrypt(c, k) succeeds iff c == encrypt(p, k); nonce is a constant (freshness is not modelled)."""
    key_bytes = 2

    def encrypt(self, data, key):
        return b'E' + key + data

    def decrypt(self, data, key):
        from replicat import exceptions
        n = len(key)
        if len(data) >= 1 + n and data[:1] == b'E' and data[1:1 + n] == key:
            return data[1 + n:]
        raise exceptions.DecryptionError

    def generate_key(self):
        return b'kk'


class InjKDF:
    """derive(km, params, ctx) = b'K' + km + b'|' + ctx : injective in (km, ctx) for fixed-length km."""

    def derive(self, km, *, params, context=None):
        return b'K' + km + b'|' + (context if context is not None else b'')

    def generate_derivation_params(self):
        return b'p'


class InjMAC:
    """mac(m, key) = b'M' + key + m : injective in (key, m) for fixed-length keys."""

    def mac(self, m, *, params):
        return b'M' + params + m

    def generate_mac_params(self):
        return b'm'


class StubChunker:
    alignment = 4

    def generate_chunking_params(self):
        return b'c' * 16


class Nop:
    def update(self, *a, **k):
        pass

    def reset(self, *a, **k):
        pass

    def close(self, *a, **k):
        pass

    def info(self, *a, **k):
        pass

    debug = warning = error = info

    def __enter__(self):
        return self

    def __exit__(self, *a):
        pass


def ideal_props(encrypted=True, userkey=b'uu', shared=b'ss', mackey=b'm'):
    from replicat.repository import RepositoryProps
    if not encrypted:
        return RepositoryProps(chunker=StubChunker(), hasher=InjHash())
    return RepositoryProps(chunker=StubChunker(), hasher=InjHash(), cipher=IdealAEAD(), userkey=userkey,
                           authenticator=InjMAC(), shared_kdf=InjKDF(),
                           private={'shared_key': shared, 'shared_kdf_params': b'p', 'mac_params': mackey,
                                    'chunker_params': b'c' * 16})


# --------------------------------------------------------------------------- real repositories, fast
FAST_KDF = {'name': 'scrypt', 'n': 4, 'r': 1, 'p': 1}


@contextlib.contextmanager
def silence():
    """Silence prints of keys/configs made by init/add_key."""
    old = sys.stdout
    sys.stdout = io.StringIO()
    try:
        yield sys.stdout
    finally:
        sys.stdout = old


@contextlib.contextmanager
def verbosity(level):
    """Run with the replicat loggers at `level` (what -v / -vv / log-level do), records swallowed by a NullHandler."""
    import logging
    if level is None:
        yield
        return
    lg = logging.getLogger('replicat')
    old = (lg.level, lg.propagate)
    h = logging.NullHandler()
    lg.addHandler(h)
    lg.setLevel(level)
    lg.propagate = False
    try:
        yield
    finally:
        lg.removeHandler(h)
        lg.setLevel(old[0])
        lg.propagate = old[1]


def fast_settings(encrypted=True, cipher=None, hashing=None, chunking=None):
    s = {}
    if hashing:
        s['hashing'] = dict(hashing)
    s['chunking'] = dict(chunking or {'min_length': 4, 'max_length': 8})
    if encrypted:
        s['encryption'] = {'kdf': dict(FAST_KDF)}
        if cipher:
            s['encryption']['cipher'] = dict(cipher)
    else:
        s['encryption'] = None
    return s


def new_loop_run(coro, mini=False):
    if mini:
        return MiniLoop().run_until_complete(coro)
    return asyncio.run(coro)


# --------------------------------------------------------------------------- determinism (names depend on nonces and time)
import datetime as _dt
import time as _time
import random as _random


class _DetOS:
    """os stand-in for replicat.utils.adapters: urandom from a seeded stream (unique per call), rest delegated."""

    def __init__(self):
        self.rng = _random.Random(0)
        self.n = 0

    def reseed(self, seed):
        self.rng = _random.Random(seed)
        self.n = 0

    def urandom(self, k):
        self.n += 1
        return self.n.to_bytes(4, 'big')[:k] + self.rng.randbytes(max(k - 4, 0)) if k >= 4 else self.rng.randbytes(k)

    def __getattr__(self, name):
        return getattr(os, name)


class _DetDatetime(_dt.datetime):
    _tick = 0
    _base = _dt.datetime(2022, 1, 1)     # UTC instant of tick 0
    _step = 1                            # seconds per tick (clock_mode() changes both)

    @classmethod
    def _utc(cls, tick):
        return _DetDatetime._base + _dt.timedelta(seconds=tick * _DetDatetime._step)

    @classmethod
    def utcnow(cls):
        _DetDatetime._tick += 1
        return cls._utc(_DetDatetime._tick)

    # local wall-clock time is NOT UTC in this model, and its offset changes between calls (another machine, a DST switch):
    # code that records local time where UTC is promised becomes visible
    _offsets = (-5, 3, -9, 1)

    @classmethod
    def now(cls, tz=None):
        _DetDatetime._tick += 1
        utc = cls._utc(_DetDatetime._tick)
        if tz is not None:
            return utc.replace(tzinfo=_dt.timezone.utc).astimezone(tz)
        return utc + _dt.timedelta(hours=cls._offsets[_DetDatetime._tick % 4])

    @classmethod
    def true_utc(cls, tick):
        return cls._utc(tick)

    # conversions of clock readings (see _DetTime): naive results are local time in the same shifting zone
    @classmethod
    def fromtimestamp(cls, ts, tz=None):
        utc = _dt.datetime(1970, 1, 1) + _dt.timedelta(seconds=ts)
        if tz is not None:
            return utc.replace(tzinfo=_dt.timezone.utc).astimezone(tz)
        return utc + _dt.timedelta(hours=cls._offsets[int(ts) % 4])

    @classmethod
    def utcfromtimestamp(cls, ts):
        return _dt.datetime(1970, 1, 1) + _dt.timedelta(seconds=ts)


class _DetTime:
    """`time` as seen by replicat.repository: time()/time_ns() read the same ticking clock as utcnow(); localtime() is the
    shifting local zone; everything else is the real module."""
    _EPOCH0 = 1640995200      # 2022-01-01T00:00:00Z

    def time(self):
        _DetDatetime._tick += 1
        return (_DetDatetime._utc(_DetDatetime._tick) - _dt.datetime(1970, 1, 1)).total_seconds()

    def time_ns(self):
        return int(self.time()) * 10 ** 9

    def gmtime(self, secs=None):
        return _time.gmtime(self.time() if secs is None else secs)

    def localtime(self, secs=None):
        secs = self.time() if secs is None else secs
        return _time.gmtime(secs + 3600 * _DetDatetime._offsets[int(secs) % 4])

    def __getattr__(self, name):
        return getattr(_time, name)


_DET = _DetOS()


@contextlib.contextmanager
def dst_night(tz='CET-1CEST,M3.5.0,M10.5.0/3', first=_dt.datetime(2022, 3, 27, 2, 10), step=1500):
    """The process runs in a daylight-saving zone and the harness clock walks through the night the clocks go forward: ticks
    are `step` seconds apart and tick 1 is the UTC instant `first` (02:10, 02:35, 03:00 ...: no two coincide when read as *local* wall-clock
    times the first two do not exist and the third precedes the second). Code that interprets the recorded naive UTC
    time in the local zone mis-orders them. Call after determinism()."""
    saved = os.environ.get('TZ')
    os.environ['TZ'] = tz
    _time.tzset()
    _DetDatetime._tick = 0
    _DetDatetime._base, _DetDatetime._step = first - _dt.timedelta(seconds=step), step
    try:
        yield
    finally:
        if saved is None:
            os.environ.pop('TZ', None)
        else:
            os.environ['TZ'] = saved
        _time.tzset()
        _DetDatetime._base, _DetDatetime._step = _dt.datetime(2022, 1, 1), 1


def determinism(seed=0):
    """Make nonces, keys and snapshot timestamps (hence object names) a function of the case vector."""
    import replicat.repository as R
    import replicat.utils.adapters as A
    A.os = _DET
    R.datetime = _DetDatetime
    if hasattr(R, 'time'):
        R.time = _DetTime()
    _DET.reseed(seed)
    _DetDatetime._tick = seed % 1000 * 10
    _DetDatetime._base, _DetDatetime._step = _dt.datetime(2022, 1, 1), 1
