"""Independent reader and writer of the replicat repository format.

Written from the README's description of the scheme (config / key / chunk / snapshot diagrams and glossary) using only
hashlib, json, base64 and cryptography - it does not import replicat. Used by C14 in both directions.
"""
from __future__ import annotations

import base64
import hashlib
import json
import os

from cryptography.hazmat.primitives.ciphers import aead
from cryptography.hazmat.primitives.kdf.scrypt import Scrypt


class FormatError(Exception):
    pass


# ----------------------------------------------------------------------------- JSON with tagged byte strings
JSON_STYLE = 0


def dumps(obj) -> bytes:
    def enc(o):
        if isinstance(o, (bytes, bytearray)):
            return {'!b': base64.standard_b64encode(bytes(o)).decode('ascii')}
        raise TypeError(type(o))
    if JSON_STYLE == 1:
        # the other common spelling of the same JSON: non-ASCII characters as raw UTF-8 (RFC 8259), default separators
        return json.dumps(obj, default=enc, ensure_ascii=False).encode('utf-8')
    return json.dumps(obj, separators=(',', ':'), default=enc).encode('ascii')


def loads(data):
    def hook(o):
        if len(o) == 1 and '!b' in o:
            return base64.standard_b64decode(o['!b'])
        return o
    return json.loads(data, object_hook=hook)


# ----------------------------------------------------------------------------- primitives named in the config / key
def hasher(cfg):
    name = cfg['name']
    if name == 'blake2b':
        n = cfg.get('length', 64)
        return lambda d: hashlib.blake2b(d, digest_size=n).digest()
    if name == 'sha2':
        return lambda d, f=getattr(hashlib, 'sha%d' % cfg.get('bits', 512)): f(d).digest()
    if name == 'sha3':
        return lambda d, f=getattr(hashlib, 'sha3_%d' % cfg.get('bits', 512)): f(d).digest()
    raise FormatError('hash ' + name)


class Cipher:
    def __init__(self, cfg):
        name = cfg['name']
        if name == 'aes_gcm':
            self.cls, self.key_bytes, self.nonce = aead.AESGCM, cfg.get('key_bits', 256) // 8, cfg.get('nonce_bits', 96) // 8
        elif name == 'chacha20_poly1305':
            self.cls, self.key_bytes, self.nonce = aead.ChaCha20Poly1305, 32, 12
        else:
            raise FormatError('cipher ' + name)

    def encrypt(self, data, key):
        nonce = os.urandom(self.nonce)
        return nonce + self.cls(key).encrypt(nonce, data, None)

    def decrypt(self, data, key):
        return self.cls(key).decrypt(data[:self.nonce], data[self.nonce:], None)


def slow_kdf(cfg, password, salt):
    if cfg['name'] == 'scrypt':
        return Scrypt(n=cfg.get('n', 1 << 20), r=cfg.get('r', 8), p=cfg.get('p', 1), length=cfg['length'], salt=salt).derive(password)
    if cfg['name'] == 'blake2b':
        return hashlib.blake2b(b'', salt=salt, digest_size=cfg['length'], key=password).digest()
    raise FormatError('kdf ' + cfg['name'])


def fast_kdf(cfg, ikm, salt, context):
    if cfg['name'] != 'blake2b':
        raise FormatError('shared kdf ' + cfg['name'])
    return hashlib.blake2b(context, salt=salt, digest_size=cfg['length'], key=ikm).digest()


def mac(cfg, data, key):
    if cfg['name'] != 'blake2b':
        raise FormatError('mac ' + cfg['name'])
    return hashlib.blake2b(data, digest_size=cfg.get('length', 64), key=key).digest()


def chunk_location(name_hex, tag_hex):
    return f'data/{tag_hex[:2]}/{tag_hex[2:4]}/{tag_hex[4:]}-{name_hex}'


def snapshot_location(name_hex, tag_hex):
    return f'snapshots/{tag_hex[:2]}/{tag_hex[2:]}-{name_hex}'


class Repo:
    """Everything derived from config + key + password."""

    def __init__(self, config_bytes, key=None, password=None):
        self.config = loads(config_bytes)
        self.H = hasher(self.config['hashing'])
        enc = self.config.get('encryption')
        self.encrypted = enc is not None
        if self.encrypted:
            self.cipher = Cipher(enc['cipher'])
            if isinstance(key, (bytes, str)):
                key = loads(key)
            self.userkey = slow_kdf(key['kdf'], password, key['kdf_params'])
            private = key['private']
            if isinstance(private, bytes):
                private = loads(self.cipher.decrypt(private, self.userkey))
            self.private = private

    # names
    def chunk_name_tag(self, digest):
        if not self.encrypted:
            return digest.hex(), digest.hex()
        m = mac(self.private['mac'], digest, self.private['mac_params'])
        return m.hex(), mac(self.private['mac'], m, self.private['mac_params']).hex()

    def snapshot_name_tag(self, digest):
        if not self.encrypted:
            return digest.hex(), digest.hex()
        return digest.hex(), mac(self.private['mac'], digest, self.private['mac_params']).hex()

    def shared_subkey(self, ctx):
        return fast_kdf(self.private['shared_kdf'], self.private['shared_key'], self.private['shared_kdf_params'], ctx)

    # ---- reading
    def read_chunk(self, objs, digest):
        name, tag = self.chunk_name_tag(digest)
        loc = chunk_location(name, tag)
        if loc not in objs:
            raise FormatError(f'chunk object missing at {loc}')
        data = objs[loc]
        if self.encrypted:
            data = self.cipher.decrypt(data, self.shared_subkey(digest))
        if self.H(data) != digest:
            raise FormatError('chunk does not hash to its digest')
        return data

    def read_snapshots(self, objs):
        out = []
        for loc, body in sorted(objs.items()):
            if not loc.startswith('snapshots/'):
                continue
            head, _, name = loc.rpartition('-')
            parts = head.split('/')
            tag = parts[1] + parts[2]
            digest = bytes.fromhex(name)
            if self.H(body) != digest:
                raise FormatError(f'snapshot {name[:8]} is not named after the hash of its content')
            if self.snapshot_name_tag(digest) != (name, tag):
                continue          # other key family
            if loc != snapshot_location(name, tag):
                raise FormatError('snapshot location does not follow the scheme')
            doc = loads(body)
            if self.encrypted:
                table = loads(self.cipher.decrypt(doc['chunks'], self.shared_subkey(self.H(doc['data']))))
                try:
                    data = loads(self.cipher.decrypt(doc['data'], self.userkey))
                except Exception:
                    data = None
            else:
                table, data = doc['chunks'], doc['data']
            out.append({'name': name, 'chunks': table, 'data': data})
        return out

    def read_files(self, objs, snap):
        """{path: bytes}; checks that the recorded ranges tile each file exactly and that the file digest matches."""
        files = {}
        for f in snap['data']['files']:
            refs = sorted(f['chunks'], key=lambda c: c['counter'])
            buf = b''
            for c in refs:
                plain = self.read_chunk(objs, snap['chunks'][c['index']])
                a, b = c['range']
                if not (0 <= a <= b <= len(plain)):
                    raise FormatError(f'range {c["range"]} outside a chunk of {len(plain)} bytes')
                buf += plain[a:b]
            md = f['metadata']
            if md is not None and 'st_size' in md and md['st_size'] != len(buf):
                raise FormatError(f'{f["path"]}: ranges cover {len(buf)} bytes, metadata says {md["st_size"]}')
            if f.get('digest') is not None and self.H(buf) != f['digest']:
                raise FormatError(f'{f["path"]}: ranges do not tile the file (digest mismatch)')
            files[f['path']] = buf
        return files


# ----------------------------------------------------------------------------- writing a repository from scratch
def write_repository(files, *, json_style=0, **kw):
    global JSON_STYLE
    saved, JSON_STYLE = JSON_STYLE, json_style
    try:
        return _write_repository(files, **kw)
    finally:
        JSON_STYLE = saved


def _write_repository(files, *, encrypted=True, cipher=None, hashing=None, legacy_metadata=False, chunk=5, password=b'refpw', mtime_ns=1_400_000_000_123_456_789):
    """Returns (objs, key_json_bytes_or_None, expected {path: (bytes, mtime_ns)}). Chunking is a plain fixed-size split of the
    padded concatenation (any segmentation is legal for a reader)."""
    hashing = hashing or {'name': 'blake2b', 'length': 64}
    config = {'hashing': hashing, 'chunking': {'name': 'gclmulchunker', 'min_length': 4, 'max_length': 8}}
    key_json = None
    if encrypted:
        cipher = cipher or {'name': 'aes_gcm', 'key_bits': 256, 'nonce_bits': 96}
        config['encryption'] = {'cipher': cipher}
        c = Cipher(cipher)
        kdf = {'name': 'scrypt', 'n': 4, 'r': 1, 'p': 1, 'length': c.key_bytes}
        salt = os.urandom(c.key_bytes)
        private = {'shared_key': os.urandom(c.key_bytes), 'shared_kdf': {'name': 'blake2b', 'length': c.key_bytes},
                   'shared_kdf_params': os.urandom(16), 'mac': {'name': 'blake2b', 'length': 64}, 'mac_params': os.urandom(64),
                   'chunker_params': os.urandom(16)}
        userkey = slow_kdf(kdf, password, salt)
        key = {'kdf': kdf, 'kdf_params': salt, 'private': c.encrypt(dumps(private), userkey)}
        key_json = dumps(key)
    objs = {'config': dumps(config)}
    repo = Repo(objs['config'], key_json, password)
    # stream = files in (size, path) order, each padded to a multiple of 4 before the next one
    order = sorted(files, key=lambda p: (len(files[p]), p))
    stream, spans = b'', {}
    for i, p in enumerate(order):
        if i:
            stream += bytes(-len(stream) % 4)
        spans[p] = (len(stream), len(stream) + len(files[p]))
        stream += files[p]
    table, index, file_refs, counter = [], {}, {p: [] for p in order}, 0
    for off in range(0, len(stream), chunk):
        piece = stream[off:off + chunk]
        counter += 1
        d = repo.H(piece)
        if d not in index:
            index[d] = len(table)
            table.append(d)
            name, tag = repo.chunk_name_tag(d)
            objs[chunk_location(name, tag)] = repo.cipher.encrypt(piece, repo.shared_subkey(d)) if encrypted else piece
        for p, (a, b) in spans.items():
            lo, hi = max(a, off), min(b, off + len(piece))
            if hi > lo or (a == b and off <= a <= off + len(piece) and not file_refs[p]):
                file_refs[p].append({'range': [lo - off, max(hi, lo) - off], 'index': index[d], 'counter': counter})
    expected = {}
    fl = []
    for i, p in enumerate(order):
        mt = mtime_ns + i * 1_000_000_000
        if legacy_metadata:
            md = {'st_mode': 0o100644, 'st_uid': 0, 'st_gid': 0, 'st_size': len(files[p]), 'st_atime': mt // 10 ** 9, 'st_mtime': mt // 10 ** 9, 'st_ctime': mt // 10 ** 9}
            expected[p] = (files[p], (mt // 10 ** 9) * 10 ** 9)
        else:
            md = {'st_mode': 0o100644, 'st_uid': 0, 'st_gid': 0, 'st_size': len(files[p]), 'st_atime_ns': mt, 'st_mtime_ns': mt, 'st_ctime_ns': mt}
            expected[p] = (files[p], mt)
        fl.append({'path': p, 'chunks': file_refs[p], 'digest': repo.H(files[p]), 'metadata': md})
    data = {'utc_timestamp': '2021-03-04 05:06:07.000008', 'files': fl, 'note': 'written by the reference writer \u2713 n\u00f8te'}
    if encrypted:
        encdata = repo.cipher.encrypt(dumps(data), repo.userkey)
        body = dumps({'chunks': repo.cipher.encrypt(dumps(table), repo.shared_subkey(repo.H(encdata))), 'data': encdata})
    else:
        body = dumps({'chunks': table, 'data': data})
    name, tag = repo.snapshot_name_tag(repo.H(body))
    objs[snapshot_location(name, tag)] = body
    return objs, key_json, expected
