"""Lift nested closures / statement ranges out of the *current* replicat sources by AST.

The lifted code is the repository's own statements, compiled into a factory whose parameters
are the closure's free variables and executed in a copy of the defining module's namespace
(so environment names such as io, tqdm, logger, utils can be substituted without editing /repo).
If an anchor no longer exists, AnchorMissing is raised -> the check is inconclusive (exit 2).
"""
from __future__ import annotations

import ast
import importlib
import inspect
from typing import Callable, Dict, List, Optional, Sequence


class AnchorMissing(Exception):
    pass


def _module_tree(modname: str):
    mod = importlib.import_module(modname)
    src = inspect.getsource(mod)
    return mod, ast.parse(src)


def _find_def(node, name):
    for n in ast.walk(node):
        if n is not node and isinstance(n, (ast.FunctionDef, ast.AsyncFunctionDef)) and n.name == name:
            return n
    raise AnchorMissing(f'no function {name!r}')


def _args(names: Sequence[str]):
    return ast.arguments(posonlyargs=[], args=[ast.arg(a) for a in names], kwonlyargs=[], kw_defaults=[], defaults=[])


def lift_closure(modname: str, outer: str, inner: str, free: Sequence[str], overrides: Optional[dict] = None,
                 transform: Optional[Callable] = None):
    """Return factory(*free) -> the nested function `inner` of `outer`, bound to those free variables."""
    mod, tree = _module_tree(modname)
    o = _find_def(tree, outer)
    i = _find_def(o, inner)
    if transform is not None:
        i = transform(i)
    fac = ast.FunctionDef(name='_factory', args=_args(free), body=[i, ast.Return(ast.Name(inner, ast.Load()))],
                          decorator_list=[], type_params=[])
    m = ast.Module(body=[fac], type_ignores=[])
    ast.fix_missing_locations(m)
    ns = dict(mod.__dict__)
    ns.update(overrides or {})
    exec(compile(m, f'<lifted {modname}:{outer}.{inner}>', 'exec'), ns)
    f = ns['_factory']
    f.__lifted_source__ = ast.unparse(i)
    return f


def lift_range(modname: str, outer: str, start_pred: Callable, end_pred: Optional[Callable], free: Sequence[str],
               returns: Sequence[str], overrides: Optional[dict] = None, inner: Optional[str] = None,
               generator_yield_locks: Optional[set] = None):
    """Lift the statements of `outer` (or of `outer`.`inner`) from the first statement satisfying start_pred up to
    (excluding) the first later statement satisfying end_pred (or the end of the body) into
    fn(*free) -> tuple(returns)."""
    mod, tree = _module_tree(modname)
    o = _find_def(tree, outer)
    if inner:
        o = _find_def(o, inner)
    idx = [k for k, s in enumerate(o.body) if start_pred(s)]
    if not idx:
        raise AnchorMissing(f'start anchor not found in {outer}')
    a = idx[0]
    b = len(o.body)
    if end_pred is not None:
        ends = [k for k, s in enumerate(o.body) if k > a and end_pred(s)]
        if not ends:
            raise AnchorMissing(f'end anchor not found in {outer}')
        b = ends[0]
    body = list(o.body[a:b])
    if returns:
        body.append(ast.Return(ast.Tuple([ast.Name(r, ast.Load()) for r in returns], ast.Load())))
    fn = ast.FunctionDef(name='_lifted', args=_args(free), body=body, decorator_list=[], type_params=[])
    if generator_yield_locks is not None:
        fn = Yielder(generator_yield_locks).instrument(fn)
    m = ast.Module(body=[fn], type_ignores=[])
    ast.fix_missing_locations(m)
    ns = dict(mod.__dict__)
    ns.update(overrides or {})
    exec(compile(m, f'<lifted range {modname}:{outer}>', 'exec'), ns)
    f = ns['_lifted']
    f.__lifted_source__ = ast.unparse(fn)
    return f


class Yielder(ast.NodeTransformer):
    """Insert `yield <lineno>` before every statement that is not inside `with <lock>`: turns a thread body into a
    cooperative generator whose pre-emption points are statement boundaries outside critical sections."""

    def __init__(self, lock_names, spin=False):
        self.lock_names = set(lock_names)
        self.in_lock = 0
        self.spin = spin

    def _body(self, stmts):
        out = []
        for s in stmts:
            if self.in_lock == 0:
                out.append(ast.Expr(ast.Yield(ast.Constant(getattr(s, 'lineno', 0)))))
                if self.spin and isinstance(s, ast.With):
                    for i in s.items:
                        if self._is_lock(i.context_expr):
                            # while <lock>.held: yield 'blocked'   (then acquire atomically)
                            out.append(ast.While(ast.Attribute(i.context_expr, 'held', ast.Load()),
                                                 [ast.Expr(ast.Yield(ast.Constant('blocked')))], []))
            out.append(self.visit(s))
        return out

    def _is_lock(self, e):
        return (isinstance(e, ast.Name) and e.id in self.lock_names) or (isinstance(e, ast.Attribute) and e.attr in self.lock_names)

    def visit_With(self, node):
        locked = any(self._is_lock(i.context_expr) for i in node.items)
        if locked:
            self.in_lock += 1
        node.body = self._body(node.body)
        if locked:
            self.in_lock -= 1
        return node

    def visit_For(self, node):
        node.body = self._body(node.body)
        node.orelse = self._body(node.orelse)
        return node

    visit_While = visit_For

    def visit_If(self, node):
        node.body = self._body(node.body)
        node.orelse = self._body(node.orelse)
        return node

    def visit_Try(self, node):
        node.body = self._body(node.body)
        for h in node.handlers:
            h.body = self._body(h.body)
        node.orelse = self._body(node.orelse)
        node.finalbody = self._body(node.finalbody)
        return node

    def visit_FunctionDef(self, node):
        return node  # do not descend into nested defs

    def instrument(self, fn):
        fn.body = self._body(fn.body)
        return fn


def has_call(stmt, attr: str) -> bool:
    for n in ast.walk(stmt):
        if isinstance(n, ast.Call):
            f = n.func
            if isinstance(f, ast.Attribute) and f.attr == attr:
                return True
            if isinstance(f, ast.Name) and f.id == attr:
                return True
    return False


def assigns(stmt, name: str) -> bool:
    if isinstance(stmt, ast.Assign):
        for t in stmt.targets:
            for n in ast.walk(t):
                if isinstance(n, ast.Name) and n.id == name:
                    return True
    return False


def is_for_over(stmt, target: str) -> bool:
    return isinstance(stmt, ast.For) and isinstance(stmt.target, ast.Name) and stmt.target.id == target


class RealFallback:
    """Mixin for stand-in `self` objects of lifted statements: any attribute the stand-in does not define is taken from the
    real Repository class (methods bound to the stand-in), so a change that merely introduces a helper method does not
    break the harness."""

    def __getattr__(self, name):
        import types
        import replicat.repository as _R
        if name.startswith('__'):
            raise AttributeError(name)
        attr = getattr(_R.Repository, name)
        return types.MethodType(attr, self) if callable(attr) else attr
