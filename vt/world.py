"""Helpers for E obligations that run the real command stack on a scratch directory."""
from __future__ import annotations

import asyncio
import contextlib
import os
import shutil
import tempfile
from pathlib import Path

from . import rt
from .core import WORK


@contextlib.contextmanager
def scratch(prefix='w'):
    base = Path(os.environ.get('VT_SCRATCH', str(WORK)))
    base.mkdir(parents=True, exist_ok=True)
    d = Path(tempfile.mkdtemp(prefix=prefix, dir=str(base)))
    try:
        yield d
    finally:
        shutil.rmtree(d, ignore_errors=True)


def content(kind: int, idx: int, size: int) -> bytes:
    """Deterministic file contents. kind 0: distinct pseudo-random per file; 1: every file is a prefix of one
    common stream (cross-file dedup); 2: zeros; 3: a repeated 8-byte block."""
    if kind == 2:
        return bytes(size)
    if kind == 3:
        return (b'ABCDEFGH' * (size // 8 + 1))[:size]
    seed = 7 if kind == 1 else 11 + idx * 31
    if size > 1 << 16:
        import random
        return random.Random(seed).randbytes(size)
    out = bytearray()
    x = seed
    for _ in range(size):
        x = (x * 1103515245 + 12345) & 0x7FFFFFFF
        out.append((x >> 16) & 0xFF)
    return bytes(out)


def tree_state(root: Path):
    """{relative posix path: (bytes, mtime_ns)} of every regular file under root (symlinks not followed)."""
    out = {}
    if not root.exists():
        return out
    for dp, dn, fn in os.walk(root):
        for f in fn:
            p = Path(dp, f)
            st = p.lstat()
            out[p.relative_to(root).as_posix()] = (p.read_bytes() if p.is_file() and not p.is_symlink() else b'<link>', st.st_mtime_ns)
    return out


def make_repo(backend, *, concurrent=2, cache_directory=None):
    R = rt.quiet_repository()
    return R.Repository(backend, concurrent=concurrent, quiet=True, cache_directory=cache_directory)


async def init_repo(repo, settings, password=b'pw'):
    with rt.silence():
        return await repo.init(password=password, settings=settings)


async def unlock(repo, key, password=b'pw'):
    await repo.unlock(password=password, key=key)
