// Minimal stand-in for pybind11's buffer protocol so that src/adapters.cpp compiles unmodified.
#pragma once
#include <cstddef>
namespace pybind11 {
struct buffer_info { void* ptr; long size; };
struct buffer {
    void* p; long n;
    buffer_info request() const { return buffer_info{p, n}; }
};
template <typename... A> struct init {};
struct module_ {};
template <typename T> struct class_ {
    class_(module_&, const char*) {}
    template <typename... A> class_& def(A&&...) { return *this; }
    template <typename... A> class_& def_readonly(A&&...) { return *this; }
};
}
#define PYBIND11_MODULE(name, var) static void pybind11_init_##name(pybind11::module_& var)
