"""Lift nested closures out of replicat.repository by AST (prototype)."""
import ast, inspect, types
import replicat.repository as R

def lift(outer_name, inner_name, free):
    src = inspect.getsource(R)
    tree = ast.parse(src)
    outer = None
    for node in ast.walk(tree):
        if isinstance(node, (ast.FunctionDef, ast.AsyncFunctionDef)) and node.name == outer_name:
            outer = node
    inner = [n for n in ast.walk(outer) if isinstance(n, (ast.FunctionDef, ast.AsyncFunctionDef)) and n.name == inner_name][0]
    factory = ast.FunctionDef(name='_factory', args=ast.arguments(posonlyargs=[], args=[ast.arg(a) for a in free], kwonlyargs=[], kw_defaults=[], defaults=[]),
        body=[inner, ast.Return(ast.Name(inner_name, ast.Load()))], decorator_list=[], type_params=[])
    mod = ast.Module(body=[factory], type_ignores=[])
    ast.fix_missing_locations(mod)
    ns = dict(R.__dict__)
    exec(compile(mod, f'<lifted {outer_name}.{inner_name}>', 'exec'), ns)
    return ns['_factory']
