from typing import List, Tuple
import replicat.repository as R
from lift import lift

class Nop:
    def update(self, *a): pass

mk_chunk_done = lift('snapshot', '_chunk_done', ['state', 'snapshot_files', 'finished_tracker', 'bytes_tracker'])

def one_chunk(s0: int, s1: int, s2: int, cs: int, ce: int) -> bool:
    """
    pre: 0 <= s0 <= s1 <= s2
    pre: 0 <= cs < ce
    pre: ce <= s0 + (-s0 % 4) + s1 + (-s1 % 4) + s2
    post: _
    """
    align = 4
    state = R._SnapshotState()
    pos = 0
    sizes = [s0, s1, s2]
    for i, s in enumerate(sizes):
        if i > 0:
            pos += -sizes[i-1] % align
        f = R._SnapshotFile(path='f%d' % i, stream_start=pos, stream_end=pos + s, digest=b'd', metadata={})
        state.files.append((pos, f))
        pos += s
    snapshot_files = {}
    cd = mk_chunk_done(state, snapshot_files, Nop(), Nop())
    cd(R._SnapshotChunk(contents=b'', index=7, location='', stream_start=cs, stream_end=ce, counter=3))
    ok = True
    for (start, f) in state.files:
        lo = max(f.stream_start, cs); hi = min(f.stream_end, ce)
        fd = snapshot_files.get(f.path)
        refs = fd['chunks'] if fd is not None else []
        if len(refs) > 1:
            ok = False
        if hi > lo:
            if len(refs) != 1 or refs[0]['range'] != [lo - cs, hi - cs] or refs[0]['index'] != 7 or refs[0]['counter'] != 3:
                ok = False
        else:
            if refs and refs[0]['range'][0] != refs[0]['range'][1]:
                ok = False
    return ok
