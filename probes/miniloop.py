"""Deterministic single-threaded event loop + inline executor (prototype)."""
import asyncio, collections, concurrent.futures, heapq

class InlineExecutor:
    def __init__(self, *a, **k): pass
    def submit(self, fn, *a, **k):
        f = concurrent.futures.Future()
        try:
            f.set_result(fn(*a, **k))
        except BaseException as e:   # noqa
            if not isinstance(e, Exception):
                raise
            f.set_exception(e)
        return f
    def shutdown(self, *a, **k): pass

class MiniLoop(asyncio.AbstractEventLoop):
    def __init__(self):
        self._ready = collections.deque()
        self._timers = []
        self._now = 0.0
        self._seq = 0
        self._exc = []
    def get_debug(self): return False
    def is_running(self): return True
    def is_closed(self): return False
    def time(self): return self._now
    def create_future(self): return asyncio.Future(loop=self)
    def create_task(self, coro, *, name=None, context=None):
        return asyncio.Task(coro, loop=self, name=name)
    def call_soon(self, cb, *args, context=None):
        h = asyncio.Handle(cb, args, self, context)
        self._ready.append(h); return h
    call_soon_threadsafe = call_soon
    def call_later(self, delay, cb, *args, context=None):
        return self.call_at(self._now + delay, cb, *args, context=context)
    def call_at(self, when, cb, *args, context=None):
        h = asyncio.TimerHandle(when, cb, args, self, context)
        self._seq += 1
        heapq.heappush(self._timers, (when, self._seq, h)); return h
    def _timer_handle_cancelled(self, h): pass
    def call_exception_handler(self, ctx): self._exc.append(ctx)
    def run_in_executor(self, executor, fn, *args):
        if executor is None: executor = InlineExecutor()
        return asyncio.wrap_future(executor.submit(fn, *args), loop=self)
    def run_until_complete(self, coro):
        asyncio._set_running_loop(self)
        try:
            task = self.create_task(coro)
            steps = 0
            while not task.done():
                steps += 1
                if steps > 100000: raise RuntimeError('loop budget')
                if self._ready:
                    h = self._ready.popleft()
                    if not h._cancelled: h._run()
                elif self._timers:
                    when, _, h = heapq.heappop(self._timers)
                    self._now = max(self._now, when)
                    if not h._cancelled: h._run()
                else:
                    raise RuntimeError('deadlock')
            return task.result()
        finally:
            asyncio._set_running_loop(None)

def run_coroutine_threadsafe(coro, loop):
    """Inline variant: the 'thread' is the loop thread; run nested until done."""
    cur = asyncio.current_task(loop)
    if cur is not None:
        asyncio.tasks._leave_task(loop, cur)
    try:
        task = loop.create_task(coro)
        while not task.done():
            if loop._ready:
                h = loop._ready.popleft()
                if not h._cancelled: h._run()
            else:
                raise RuntimeError('deadlock (threadsafe)')
    finally:
        if cur is not None:
            asyncio.tasks._enter_task(loop, cur)
    f = concurrent.futures.Future()
    if task.exception() is not None: f.set_exception(task.exception())
    else: f.set_result(task.result())
    return f
