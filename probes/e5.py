import asyncio, json
from typing import List
import replicat.repository as R
from replicat.repository import Repository, RepositoryProps
from replicat import exceptions
import miniloop

R.ThreadPoolExecutor = miniloop.InlineExecutor
class _AsyncioShim:
    def __getattr__(self, n): return getattr(asyncio, n)
    run_coroutine_threadsafe = staticmethod(miniloop.run_coroutine_threadsafe)
R.asyncio = _AsyncioShim()

class MemBackend:
    def __init__(self): self.objs = {}; self.deleted = []
    async def exists(self, name): return name in self.objs
    async def upload(self, name, data): self.objs[name] = bytes(data)
    async def download(self, name): return self.objs[name]
    async def delete(self, name): self.deleted.append(name); self.objs.pop(name, None)
    async def list_files(self, prefix=''):
        for k in sorted(self.objs):
            if k.startswith(prefix): yield k
    async def clean(self): pass
    async def close(self): pass

class Hasher:
    def digest(self, data): 
        import hashlib
        return hashlib.blake2b(bytes(data), digest_size=8).digest()
class Chunker:
    alignment = 4

def mk_repo(be):
    repo = Repository(be, concurrent=2, cache_directory=None)
    repo.props = RepositoryProps(chunker=Chunker(), hasher=Hasher())
    return repo

D = [bytes([i]) * 8 for i in range(4)]

def clean_safe(ref0: List[bool], ref1: List[bool], present: List[bool]) -> bool:
    """
    pre: len(ref0) == 3 and len(ref1) == 3 and len(present) == 3
    post: _
    """
    be = MemBackend()
    repo = mk_repo(be)
    loop = miniloop.MiniLoop()
    refs = [[D[j] for j in range(3) if r[j]] for r in (ref0, ref1)]
    for i, r in enumerate(refs):
        body = repo.serialize({'chunks': r, 'data': {'utc_timestamp': '2020-01-0%d 00:00:00' % (i+1), 'files': []}})
        dg = repo.props.hash_digest(body)
        name, tag = repo._snapshot_digest_to_location_parts(dg)
        be.objs[repo.get_snapshot_location(name=name, tag=tag)] = body
    for j in range(3):
        if present[j] or ref0[j] or ref1[j]:
            be.objs[repo._chunk_digest_to_location(D[j])] = b'x'
    loop.run_until_complete(repo.clean())
    ok = True
    for j in range(3):
        loc = repo._chunk_digest_to_location(D[j])
        referenced = ref0[j] or ref1[j]
        if referenced and loc not in be.objs: ok = False
        if not referenced and loc in be.objs: ok = False
    return ok

if __name__ == '__main__':
    print(clean_safe([False, True, False], [False, False, False], [False, False, False]))
