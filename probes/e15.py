import ast, threading, contextlib, concurrent.futures, types
from typing import List
from lift import lift
import replicat.repository as R
from replicat import exceptions
from replicat.exceptions import ReplicatError, DecryptionError
from replicat.repository import RepositoryProps
import miniloop

class InjHash:
    def digest(self, data): return b'H' + data
class Chunker: alignment = 4
class IdealAEAD:
    key_bytes = 2
    def encrypt(self, data, key): return b'E' + key + data
    def decrypt(self, data, key):
        if len(data) >= 3 and data[:1] == b'E' and data[1:3] == key: return data[3:]
        raise exceptions.DecryptionError
class InjKDF:
    def derive(self, km, *, params, context=None): return bytes([ (sum(context) + km[0]) % 251, len(context) % 251 ])
class InjMAC:
    def mac(self, m, *, params): return b'M' + m

class FakeBytesIO:
    def __init__(self): self.v = b''
    def write(self, d): self.v = self.v + d; return len(d)
    def getvalue(self): return self.v
    def __enter__(self): return self
    def __exit__(self, *a): pass
class FakeIO: BytesIO = FakeBytesIO
class Pass:
    def __init__(self, s, **k): self.s = s
    def write(self, d): return self.s.write(d)
    def __enter__(self): return self
    def __exit__(self, *a): pass
class FakeUtils: TQDMIOWriter = Pass
class Nop:
    def update(self, *a): pass

FREE = ['self', 'loop', 'rate_limiter', 'download_chunk_size', 'writer', 'files_digests', 'files_metadata', 'glock', 'finished_tracker', '_write_chunk_ref', 'io', 'utils', 'memoryview']
MK = lift('restore', '_download_chunk', FREE)

class Self:
    _quiet = True
    def __init__(self, props, stored): self.props = props; self.stored = stored; self.meta = []
    @contextlib.contextmanager
    def _acquire_slot_threadsafe(self, *, loop): yield 2
    def _chunk_digest_to_location(self, d): return 'data/xx'
    def _maybe_run_coroutine_threadsafe(self, func, location, stream, chunk_size, *, loop):
        stream.write(self.stored)
    class backend: download_stream = None
    def restore_metadata(self, p, m): self.meta.append(p)

ORIG = b'abcd'
def corrupted_chunk(stored: bytes, encrypted: bool) -> bool:
    """
    pre: len(stored) <= 7
    post: _
    raises: ReplicatError, DecryptionError
    """
    if encrypted:
        props = RepositoryProps(chunker=Chunker(), hasher=InjHash(), cipher=IdealAEAD(), userkey=b'uu', authenticator=InjMAC(), shared_kdf=InjKDF(), private={'shared_key': b'ss', 'shared_kdf_params': b'p', 'mac_params': b'm'})
    else:
        props = RepositoryProps(chunker=Chunker(), hasher=InjHash())
    me = Self(props, stored)
    written = []
    def write_ref(ref, contents): written.append(bytes(contents[ref[3]: ref[3] + ref[1]]))
    digest = b'H' + ORIG
    files_digests = {'F': {digest}}; files_metadata = {'F': ('/x/F', {})}
    dl = MK(me, None, None, 5, miniloop.InlineExecutor(), files_digests, files_metadata, threading.Lock(), Nop(), write_ref, FakeIO, FakeUtils, (lambda x: x))
    dl(digest, [('F', 4, 0, 0)])
    return written == [ORIG]
