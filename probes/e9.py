from crosshair.core import realize
from crosshair.tracers import NoTracing
import os, json

def heavy(k):
    # concrete, untraced work incl. C code and file system
    s = json.dumps({'k': k})
    return len(os.listdir('/')) > 0 and json.loads(s)['k'] != 37

def f(x: int, y: int) -> bool:
    """
    pre: 0 <= x <= 9 and 0 <= y <= 9
    post: _
    """
    k = realize(x * 10 + y)
    with NoTracing():
        return heavy(k)

def g(x: int, y: int) -> bool:
    """
    pre: 0 <= x <= 9 and 0 <= y <= 9
    post: _
    """
    k = realize(x * 10 + y)
    with NoTracing():
        return heavy(k) or True
