import ast, threading
from typing import List
from lift2 import lift_tail

def is_tail_start(s):
    return isinstance(s, ast.For) and isinstance(s.target, ast.Name) and s.target.id == 'file_path'

FREE = ['self', 'digest', 'referenced_paths', 'glock', 'files_digests', 'files_metadata', 'finished_tracker', 'logger']
TAIL, SRC = lift_tail('restore', '_download_chunk', is_tail_start, FREE)

class Nop:
    def update(self, *a): pass
    def info(self, *a): pass
class Self:
    def __init__(self): self.restored = []
    def restore_metadata(self, p, m): self.restored.append(p)

def race(schedule: List[int]) -> bool:
    """
    pre: len(schedule) <= 14 and all(0 <= s <= 1 for s in schedule)
    post: _
    """
    glock = threading.Lock()
    files_digests = {'F': {b'd0', b'd1'}}
    files_metadata = {'F': ('/x/F', {})}
    me = Self()
    gens = [TAIL(me, d, {'F'}, glock, files_digests, files_metadata, Nop(), Nop()) for d in (b'd0', b'd1')]
    live = [True, True]
    for s in schedule:
        if not live[s]:
            s = 1 - s
        if not live[s]:
            break
        try:
            next(gens[s])
        except StopIteration:
            live[s] = False
    for i in (0, 1):     # drain
        while live[i]:
            try: next(gens[i])
            except StopIteration: live[i] = False
    return me.restored == ['/x/F'] and not files_metadata
