from typing import Optional
import replicat.repository as R
from replicat.repository import Repository, RepositoryProps
from replicat import exceptions

class InjHasher:
    """Idealised collision-free hash: digest(x) = b'H' + x."""
    def digest(self, data): return b'H' + bytes(data) if not hasattr(data, '__ch_realize__') else b'H' + data
class Chunker: alignment = 4
class _B: pass

class Repo(Repository):
    def __init__(self, cached, stored):
        super().__init__(_B(), concurrent=1, cache_directory='/nonexistent')
        self._cached, self._stored = cached, stored
        self.downloads = 0
    def _get_cached(self, path):
        if self._cached is None: raise FileNotFoundError
        return self._cached
    def _store_cached(self, path, data): self._cached = data
    def _download_threadsafe(self, path, *, loop):
        self.downloads += 1
        return self._stored

ORIG = b'{"chunks":[],"data":{"utc_timestamp":"2020-01-01 00:00:00","files":[]}}'

def cache_transparent(has_cache: bool, cached: bytes) -> bool:
    """
    pre: len(cached) <= 3 or cached == ORIG
    post: _
    raises: ValueError
    """
    repo = Repo(cached if has_cache else None, ORIG)
    repo.props = RepositoryProps(chunker=Chunker(), hasher=InjHasher())
    expected = b'H' + ORIG
    body = repo._download_snapshot_threadsafe('snapshots/ab/cd-ef', expected, loop=None)
    return body == {'chunks': [], 'data': {'utc_timestamp': '2020-01-01 00:00:00', 'files': []}}
