import z3, time
def clmul64(a, b):
    # carry-less multiply of two 64-bit -> 128-bit
    A = z3.ZeroExt(64, a); acc = z3.BitVecVal(0, 128)
    for i in range(64):
        bit = z3.Extract(i, i, b)
        acc = acc ^ z3.If(bit == 1, A << i, z3.BitVecVal(0, 128))
    return acc
def key(k0, k1, w):
    # params = (27<<64)|k0 ; v = clmul(lo(params), lo(v)) ; u = clmul(hi(params), hi(v)) ; lo(k1^u^v)
    v = clmul64(k0, w)
    u = clmul64(z3.BitVecVal(27, 64), z3.Extract(127, 64, v))
    return k1 ^ z3.Extract(63, 0, u) ^ z3.Extract(63, 0, v)
k0, k1 = z3.BitVecs('k0 k1', 64)
b = [z3.BitVec('b%d' % i, 8) for i in range(12)]
t = [z3.BitVec('t%d' % i, 8) for i in range(9, 12)]
def word(bs): return z3.Concat(*reversed(bs))
w4 = word(b[0:8]); w8a = word(b[4:12]); w8b = word(b[4:9] + t)
s = z3.Solver()
s.add(k0 != 0)
ka4 = key(k0, k1, w4)
s.add(z3.UGT(key(k0, k1, w8a), ka4), z3.ULE(key(k0, k1, w8b), ka4), z3.UGT(ka4, 0))
t0 = time.time(); r = s.check(); print(r, time.time() - t0)
if str(r) == 'sat':
    m = s.model(); print(hex(m[k0].as_long()), hex(m[k1].as_long()), [m.eval(x, True).as_long() for x in b], [m.eval(x, True).as_long() for x in t])
