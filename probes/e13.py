import threading
import replicat.utils as U

class Clock:
    def __init__(self): self.now = 0.0; self.slept = 0.0
    def perf_counter(self): return self.now
    def sleep(self, s): self.now += s; self.slept += s
    def __getattr__(self, n):
        import time; return getattr(time, n)
clock = Clock(); U.time = clock
L = 1000; d = 250; r = 0.25   # each stream alone runs at exactly L
N = 2; K = 20
bar = threading.Barrier(N)
class Src:
    def read(self, size):
        i = bar.wait()
        if i == 0: clock.now += r      # the two reads overlap in wall-clock time
        bar.wait()
        return b'x' * size
lim = U.RateLimitedIO(L)
tot = {}
def run():
    w = lim.wrap(Src())
    for _ in range(K):
        tot[threading.get_ident()] = tot.get(threading.get_ident(), 0) + len(w.read(d))
ts = [threading.Thread(target=run) for _ in range(N)]
[t.start() for t in ts]; [t.join() for t in ts]
print('bytes', sum(tot.values()), 'virtual seconds', clock.now, 'rate', sum(tot.values()) / clock.now, 'limit', L, 'slept', clock.slept)
