"""Prototype LLVM-IR -> z3 interpreter for gclmulchunker::next_cut (BMC by path enumeration with merging at ret)."""
import re, sys, z3, time

def parse(path, fname_sub):
    txt = open(path).read()
    m = re.search(r'define [^\n]*@(\S*%s\S*)\(([^\n]*)\{\n(.*?)\n\}' % fname_sub, txt, re.S)
    body = m.group(3)
    blocks, cur = {}, None
    order = []
    for line in body.split('\n'):
        line = line.split(' ; ')[0].rstrip() if not re.match(r'^\d+:', line) else line
        if not line.strip(): continue
        lm = re.match(r'^(\d+):', line)
        if lm:
            cur = '%' + lm.group(1); blocks[cur] = []; order.append(cur); continue
        if cur is None:
            cur = '%entry'; blocks[cur] = []; order.append(cur)
        blocks[cur].append(line.strip())
    return blocks, order

BV64 = lambda v: z3.BitVecVal(v, 64)

class Env:
    def __init__(self, maxlen_bound, clmul_uf=True):
        self.min = z3.BitVec('min', 64); self.max = z3.BitVec('max', 64)
        self.size = z3.BitVec('size', 64); self.final = z3.Bool('final')
        self.k0 = z3.BitVec('k0', 64); self.k1 = z3.BitVec('k1', 64)
        self.mem = z3.Array('buf', z3.BitVecSort(64), z3.BitVecSort(8))
        self.loads = []    # (path_cond, offset, width)
        self.uf = z3.Function('pclmul', z3.BitVecSort(64), z3.BitVecSort(64), z3.BitVecSort(128))

def clmul_exact(a, b):
    A = z3.ZeroExt(64, a); acc = z3.BitVecVal(0, 128)
    for i in range(64):
        acc = acc ^ z3.If(z3.Extract(i, i, b) == 1, A << i, z3.BitVecVal(0, 128))
    return acc

def run(blocks, order, env, unroll, exact=False):
    """Symbolic execution with forking at conditional branches; returns list of (pathcond, retval)."""
    results = []
    # pointers are ('this', off) / ('bufstruct', off) / ('buf', bvoff)
    def val(tok, regs):
        tok = tok.strip()
        if tok in regs: return regs[tok]
        if tok == 'true': return z3.BoolVal(True)
        if tok == 'false': return z3.BoolVal(False)
        if tok == 'poison' or tok == 'undef': return None
        return BV64(int(tok))
    def step(bname, prev, regs, pc, depth):
        if depth > unroll: 
            results.append((pc, 'UNWIND')); return
        regs = dict(regs)
        insts = blocks[bname]
        # phis first (parallel)
        newv = {}
        for ins in insts:
            m = re.match(r'(%\d+) = phi (\S+) (.*)', ins)
            if not m: continue
            for v, b in re.findall(r'\[ ([^,]+), (%\d+) \]', m.group(3)):
                if b == prev or (prev == '%entry' and b == '%3'):
                    newv[m.group(1)] = val(v, regs)
        regs.update(newv)
        for ins in insts:
            if ' = phi ' in ins: continue
            m = re.match(r'(%\d+) = getelementptr inbounds (\S+), \S+ (%\d+), i64 (\d+), i32 (\d+)(?:, i64 (\d+))?', ins)
            if m:
                base = regs[m.group(3)]; fld = int(m.group(5))
                if 'gclmulchunker' in m.group(2): regs[m.group(1)] = ('this', fld)
                else: regs[m.group(1)] = ('bufstruct', fld)
                continue
            m = re.match(r'(%\d+) = getelementptr inbounds i8, i8\* (%\d+), i64 (%?\-?\d+)', ins)
            if m:
                base = regs[m.group(2)]; assert base[0] == 'buf'
                regs[m.group(1)] = ('buf', base[1] + val(m.group(3), regs)); continue
            m = re.match(r'(%\d+) = bitcast \S+ (%\d+) to', ins)
            if m: regs[m.group(1)] = regs[m.group(2)]; continue
            m = re.match(r'(%\d+) = load (<2 x i64>|i64|i8\*), [^%]*(%\d+)', ins)
            if m:
                ptr = regs[m.group(3)]; ty = m.group(2)
                if ptr == ('bufstruct', 0): regs[m.group(1)] = ('buf', BV64(0))
                elif ptr == ('bufstruct', 1): regs[m.group(1)] = env.size
                elif ptr == ('this', 0): regs[m.group(1)] = env.min
                elif ptr == ('this', 1): regs[m.group(1)] = env.max
                elif ptr == ('this', 2): regs[m.group(1)] = [env.k0, BV64(27)]
                elif ptr == ('this', 3): regs[m.group(1)] = env.k1 if ty == 'i64' else [env.k1, BV64(0)]
                elif ptr[0] == 'buf':
                    off = ptr[1]; env.loads.append((pc, off, 8))
                    regs[m.group(1)] = z3.Concat(*[z3.Select(env.mem, off + i) for i in reversed(range(8))])
                else: raise NotImplementedError(ins)
                continue
            m = re.match(r'(%\d+) = (add|shl|lshr|and|xor|or|sub|mul)(?: nuw| nsw)* (i64|i1|<2 x i64>) ([^,]+), (.+)', ins)
            if m:
                a, b = val(m.group(4), regs), val(m.group(5), regs)
                op = m.group(2)
                def f(x, y):
                    if z3.is_bool(x): return {'xor': z3.Xor, 'and': z3.And, 'or': z3.Or}[op](x, y)
                    return {'add': lambda: x + y, 'sub': lambda: x - y, 'mul': lambda: x * y, 'shl': lambda: x << y, 'lshr': lambda: z3.LShR(x, y), 'and': lambda: x & y, 'xor': lambda: x ^ y, 'or': lambda: x | y}[op]()
                regs[m.group(1)] = [f(x, y) for x, y in zip(a, b)] if isinstance(a, list) else f(a, b); continue
            m = re.match(r'(%\d+) = icmp (\w+) i64 ([^,]+), (.+)', ins)
            if m:
                a, b = val(m.group(3), regs), val(m.group(4), regs)
                regs[m.group(1)] = {'ult': z3.ULT, 'ugt': z3.UGT, 'ule': z3.ULE, 'uge': z3.UGE, 'eq': lambda x, y: x == y, 'ne': lambda x, y: x != y}[m.group(2)](a, b); continue
            m = re.match(r'(%\d+) = select i1 ([^,]+), (?:i64|i1) ([^,]+), (?:i64|i1) (.+)', ins)
            if m:
                regs[m.group(1)] = z3.If(val(m.group(2), regs), val(m.group(3), regs), val(m.group(4), regs)); continue
            m = re.match(r'(%\d+) = insertelement <2 x i64> (\S+), i64 (%\d+), i64 (\d+)', ins)
            if m:
                base = val(m.group(2), regs) or [BV64(0), BV64(0)]; base = list(base); base[int(m.group(4))] = regs[m.group(3)]; regs[m.group(1)] = base; continue
            m = re.match(r'(%\d+) = extractelement <2 x i64> (%\d+), i64 (\d+)', ins)
            if m: regs[m.group(1)] = regs[m.group(2)][int(m.group(3))]; continue
            m = re.match(r'(%\d+) = call <2 x i64> @llvm.x86.pclmulqdq\(<2 x i64> (%\d+), <2 x i64> (%\d+), i8 (\d+)\)', ins)
            if m:
                a, b, imm = regs[m.group(2)], regs[m.group(3)], int(m.group(4))
                x, y = a[imm & 1], b[(imm >> 4) & 1]
                p = clmul_exact(x, y) if exact else env.uf(x, y)
                regs[m.group(1)] = [z3.Extract(63, 0, p), z3.Extract(127, 64, p)]; continue
            m = re.match(r'br i1 (%\d+), label (%\d+), label (%\d+)', ins)
            if m:
                c = regs[m.group(1)]
                for cond, tgt in ((c, m.group(2)), (z3.Not(c), m.group(3))):
                    s = z3.Solver(); s.add(pc, cond)
                    if str(s.check()) == 'sat':
                        step(tgt, bname, regs, z3.And(pc, cond), depth + (1 if tgt == bname else 0))
                return
            m = re.match(r'br label (%\d+)', ins)
            if m: step(m.group(1), bname, regs, pc, depth); return
            m = re.match(r'ret i64 (%\d+)', ins)
            if m: results.append((pc, regs[m.group(1)])); return
            raise NotImplementedError(ins)
    regs = {'%0': 'this', '%1': 'bufstruct', '%2': env.final}
    return results, lambda pre: step(order[0], '%entry', regs, pre, 0)

if __name__ == '__main__':
    B = int(sys.argv[1]) if len(sys.argv) > 1 else 16
    blocks, order = parse('/scratch/adapters.ll', 'next_cut')
    env = Env(B)
    P = z3.And(z3.UGE(env.min, 1), z3.ULE(env.min, env.max), z3.ULE(env.max, B), z3.ULE((env.min + 3) & BV64(-4 & (2**64-1)), env.max), env.k0 != 0, z3.ULE(env.size, 2 * B + 8))
    t0 = time.time()
    results, go = run(blocks, order, env, unroll=B // 4 + 1)
    go(P)
    print('paths', len(results), 'loads', len(env.loads), 'unwind-hit', sum(1 for _, r in results if isinstance(r, str)), 'in %.1fs' % (time.time() - t0))
    # N1 memory safety
    s = z3.Solver(); s.add(z3.Or([z3.And(pc, z3.Or(z3.UGT(off + w, env.size), z3.UGT(off, off + w))) for pc, off, w in env.loads]))
    t0 = time.time(); r = s.check(); print('N1 (load out of bounds reachable?):', r, '%.2fs' % (time.time() - t0))
    if str(r) == 'sat':
        m = s.model(); print('   ', {k: m.eval(v).as_long() if not z3.is_bool(v) else m.eval(v) for k, v in (('min', env.min), ('max', env.max), ('size', env.size), ('final', env.final))})
        s.add(z3.Not(z3.And(env.max & 3 != 0, z3.Not(env.final), z3.ULT(env.size, env.max + 3))))
        t0 = time.time(); print('N1 excluding known-finding class:', s.check(), '%.2fs' % (time.time() - t0))
    # N2/N3 contract
    def contract(r):
        mn, mx, sz, fin = env.min, env.max, env.size, env.final
        main = z3.And(z3.UGE(r, mn), z3.ULE(r, mx), r & 3 == 0)
        return z3.If(fin,
                     z3.If(z3.UGE(sz, 2 * mx), main, z3.If(z3.UGT(sz, mx), z3.And(z3.UGT(r, 0), z3.ULT(r, sz)), r == sz)),
                     z3.If(z3.ULT(sz, mx), r == 0, main))
    s = z3.Solver(); s.add(z3.Or([z3.And(pc, z3.Not(contract(r))) for pc, r in results if not isinstance(r, str)]))
    t0 = time.time(); print('N2/N3 (contract violated?):', s.check(), '%.2fs' % (time.time() - t0))
