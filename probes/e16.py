import z3, time
# hand encoding of read()+pause_reads() one step; py2smt will generate this from the AST
L, d = z3.Ints('L d'); debt, r, ov, eps = z3.Reals('debt r ov eps')
e = z3.Real('e')
s = z3.Solver()
s.add(L >= 1, d >= 1, 4 * d <= L, e * z3.ToReal(L) == z3.ToReal(d))
s.add(eps == z3.RealVal('0.01'), -eps <= debt, debt <= z3.RealVal('0.25'), r >= 0, ov >= 0, ov <= eps)
t0 = z3.RealVal(0)
t1 = t0 + r                                   # after self._file.read
pause = z3.If(e - (t1 - t0) > 0, e - (t1 - t0), 0)
a1 = debt + pause
a2 = z3.If(a1 > z3.RealVal('0.5'), z3.RealVal('0.5'), a1)
sleeps = a2 > z3.RealVal('0.25')
t2 = z3.If(sleeps, t1 + a2 + ov, t1)
new = z3.If(sleeps, a2 - (t2 - t1), a2)
dt = t2 - t0
good = z3.And(-eps <= new, new <= z3.RealVal('0.25'), new - debt >= e - dt, a1 <= z3.RealVal('0.5'))
s.add(z3.Not(good))
t = time.time(); print(s.check(), time.time() - t)
