"""Lift a closure and instrument it with cooperative yields (prototype)."""
import ast, inspect
import replicat.repository as R

LOCK_NAMES = {'glock'}

class Yielder(ast.NodeTransformer):
    def __init__(self): self.in_lock = 0
    def _body(self, stmts):
        out = []
        for s in stmts:
            s = self.visit(s)
            if self.in_lock == 0:
                out.append(ast.Expr(ast.Yield(ast.Constant(getattr(s, 'lineno', 0)))))
            out.append(s)
        return out
    def visit_With(self, node):
        locked = any(isinstance(i.context_expr, ast.Name) and i.context_expr.id in LOCK_NAMES for i in node.items)
        if locked: self.in_lock += 1
        node.body = self._body(node.body)
        if locked: self.in_lock -= 1
        return node
    def visit_For(self, node):
        node.body = self._body(node.body); return node
    def visit_If(self, node):
        node.body = self._body(node.body); node.orelse = self._body(node.orelse); return node
    def visit_FunctionDef(self, node):
        node.body = self._body(node.body); return node

def lift_tail(outer_name, inner_name, start_pred, free):
    tree = ast.parse(inspect.getsource(R))
    outer = [n for n in ast.walk(tree) if isinstance(n, (ast.FunctionDef, ast.AsyncFunctionDef)) and n.name == outer_name][0]
    inner = [n for n in ast.walk(outer) if isinstance(n, ast.FunctionDef) and n.name == inner_name][0]
    idx = [i for i, s in enumerate(inner.body) if start_pred(s)][0]
    fn = ast.FunctionDef(name='_tail', args=ast.arguments(posonlyargs=[], args=[ast.arg(a) for a in free], kwonlyargs=[], kw_defaults=[], defaults=[]),
                         body=inner.body[idx:], decorator_list=[], type_params=[])
    fn = Yielder().visit_FunctionDef(fn)
    mod = ast.Module(body=[fn], type_ignores=[]); ast.fix_missing_locations(mod)
    ns = dict(R.__dict__)
    exec(compile(mod, '<lifted tail>', 'exec'), ns)
    return ns['_tail'], ast.unparse(fn)
