import asyncio, io, httpx, miniloop
import replicat.backends.s3c as S

store = {}
calls = []
def handler(request: httpx.Request):
    calls.append((request.method, request.url.raw_path))
    path = request.url.path
    if request.method == 'PUT':
        body = request.read() if hasattr(request, '_content') else b''
        if len(calls) < 3:
            return httpx.Response(503, text='slow down')
        store[path] = request.content
        return httpx.Response(200)
    if request.method == 'GET':
        if path in store: return httpx.Response(200, content=store[path])
        return httpx.Response(404)
    return httpx.Response(500)

async def main():
    be = S.S3Compatible('bkt', key_id='AK', access_key='SK', region='r', host='h.example')
    be._client = httpx.AsyncClient(transport=httpx.MockTransport(handler), timeout=None, event_hooks={'response': [S._raise_for_status_hook]})
    await be.upload_stream('data/x', io.BytesIO(b'hello world' * 3), 33, 7)
    out = io.BytesIO()
    await be.download_stream('data/x', out, 5)
    return out.getvalue()

loop = miniloop.MiniLoop()
print(loop.run_until_complete(main()), calls, loop.time())
