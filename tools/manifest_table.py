"""Claim table for tools/mkmanifest.py (one place; regenerate MANIFEST.json after editing)."""


def extend(claim, NA):
    claim('C02',
          'Bounded solver-based check of the real code: one inductive step of delete/clean from an arbitrary consistent repository state (symbolic state vector exhausted by z3 through CrossHair over the real command bodies with real crypto), symbolic-digest injectivity of storage names, and every history of 3 real commands followed by restoring every listed snapshot.',
          'bounds 2 snapshots x 2-3 digests x 3 users (thorough 3x3), histories of length 3 (thorough 4); inline executor + deterministic loop; snapshot preserving the invariant is shown on bounded histories only.',
          'solver-exhausted state vectors over real delete/clean (CrossHair realize + z3) + symbolic execution of name derivation', '3/C02')
    claim('C08',
          'Bounded solver-based check: location build/parse inverse and name injectivity by symbolic strings/bytes through the real helpers (CrossHair+z3); completeness and confinement of delete and clean from every state of a symbolic state vector (owners, reference matrix, orphans, command) executed on the real command bodies with real crypto.',
          'hex strings up to 6 characters (functions only slice); states up to 2x2 quick / 3x3 thorough; the chunk and snapshot areas contain only replicat objects; inline executor.',
          'symbolic execution of location helpers (CrossHair+z3) + solver-exhausted state vectors over real delete/clean', '3/C08')
