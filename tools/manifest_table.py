"""Claim table for tools/mkmanifest.py (one place; regenerate MANIFEST.json after editing)."""


def extend(claim, NA):
    claim('C02',
          'Bounded solver-based check of the real code: one inductive step of delete/clean from an arbitrary consistent repository state (symbolic state vector exhausted by z3 through CrossHair over the real command bodies with real crypto), symbolic-digest injectivity of storage names, and every history of 3 real commands followed by restoring every listed snapshot.',
          'bounds 2 snapshots x 2-3 digests x 3 users (thorough 3x3), histories of length 3 (thorough 4); inline executor + deterministic loop; snapshot preserving the invariant is shown on bounded histories only.',
          'solver-exhausted state vectors over real delete/clean (CrossHair realize + z3) + symbolic execution of name derivation', '3/C02')
    claim('C08',
          'Bounded solver-based check: location build/parse inverse and name injectivity by symbolic strings/bytes through the real helpers (CrossHair+z3); completeness and confinement of delete and clean from every state of a symbolic state vector (owners, reference matrix, orphans, command) executed on the real command bodies with real crypto.',
          'hex strings up to 6 characters (functions only slice); states up to 2x2 quick / 3x3 thorough; the chunk and snapshot areas contain only replicat objects; inline executor.',
          'symbolic execution of location helpers (CrossHair+z3) + solver-exhausted state vectors over real delete/clean', '3/C08')
    claim('C04',
          'Bounded solver-based check: the lifted restore._download_chunk, _download_snapshot_threadsafe and the snapshot tag filter are traced by CrossHair+z3 with SYMBOLIC stored/downloaded bytes (<=7 / <=3) and symbolic hex names under idealised crypto - every path raises or delivers the original plaintext; plus a solver-exhausted corruption vector (object x kind x position) over a real repository restored twice with a cache.',
          'collision resistance and AEAD unforgeability idealised in the S obligations; E.corrupt uses 15 objects, 40 positions per object.',
          'symbolic execution of lifted restore/_load_snapshots closures with symbolic object bytes (CrossHair+z3) + solver-exhausted corruption vectors', '3/C04')
    claim('C10',
          'Bounded solver-based check of the real C++: LLVM IR of next_cut compiled from the current source is executed symbolically into z3 bit-vectors (64-bit min/max/size, symbolic bytes and key, loop unrolled to max<=64/128 with unwinding assertion): memory safety, length/alignment contract, locality (2-safety) and purity are unsat queries; the Python adapter is checked against ANY cutter obeying that contract and against the source-built cutter.',
          'pclmulqdq uninterpreted; callee precondition assumed on the IR and established on the adapter; max beyond the unrolling bound not covered; shipped .so cannot be rebuilt (translator validated against a source-built library every run).',
          'LLVM IR -> SMT (z3 bit-vectors) bounded model checking of next_cut + solver-exhausted vectors over the Python adapter', '3/C10')
    claim('C11',
          'Algebraic clauses only: locality of a cut decision (z3 2-safety query on the IR), its end-to-end consequence for common suffixes on the source-built cutter, and key sensitivity as a bit-exact sat witness replayed natively. The probabilistic re-synchronisation bound is NOT claimed (an SMT solver does not decide probabilities).',
          'as C10; statistical clause outside the claim.',
          'LLVM IR -> SMT self-composition (z3) + bit-exact CLMUL witness query', '3/C11')
    claim('C18',
          'Bounded solver-based check: the real _download_snapshot_threadsafe traced by CrossHair+z3 with SYMBOLIC cache entries (any bytes <=3, any proper prefix of the content) and symbolic wrong downloads; result must equal the cache-less result. Plus a solver-exhausted vector of command histories x cache sharing x cache-file corruption comparing cached and cache-less clients on the real stack.',
          'hash idealised as injective in K1-K3; histories of 2 free commands + 1 delete by 3 users.',
          'symbolic execution with symbolic cache bytes (CrossHair+z3) + solver-exhausted history/corruption vectors', '3/C18')
    claim('C06',
          'Bounded solver-based check: _instantiate_key with a symbolic password and _decrypt_snapshot_body with symbolic key relations traced under CrossHair+z3 with idealised crypto; access matrix (ownership set x viewer x extra command), every (key,password) pair and the delete/clean state vector exhausted by the solver over the real command bodies with real crypto.',
          'strength of scrypt/AEAD outside the claim; 3 users (owner, shared, independent); states up to 2x2 quick / 3x3 thorough.',
          'symbolic execution of key/snapshot decryption kernels (CrossHair+z3) + solver-exhausted access/state vectors on real commands', '3/C06')
    claim('C07',
          'Bounded solver-based check: symbolic-digest injectivity and family separation of storage names (CrossHair+z3), plus solver-exhausted vectors of (data set, argument orders, users, concurrency) and of 3-snapshot histories over the real snapshot command with an upload-counting backend.',
          'crash-free histories; 4 data sets with shared/equal-size/repeated/identical content; chunk boundaries themselves are C10/C11.',
          'symbolic execution of name derivation (CrossHair+z3) + solver-exhausted snapshot vectors with upload counting', '3/C07')
    claim('C20',
          'Solver-based check of the real code: the limiter methods are translated from the current AST into z3 real arithmetic; an inductive step with symbolic limit/debt/bytes/latency (unsat), a K-step BMC over all windows, the commands\' chunk-size expressions over unbounded integers, and a two-stream model whose sat model (aggregate 2L) is the recorded known finding F9; transparency by CrossHair with symbolic bytes/offsets.',
          'floats as reals; sleep overshoot <= 0.01 s; multi-step queries for L in {4,1000,2^20,10^9}; L<4 outside; F9 (several overlapping streams) is a known finding.',
          'Python AST -> SMT (z3 reals) inductive step + bounded model checking; CrossHair for transparency', '3/C20')
    claim('C03',
          'Bounded exhaustive check driven by the solver (no arithmetic in this property): crash index over the backend mutations of snapshot/delete/clean, index of one permanently failing call, latency pattern and concurrency are digits of a symbolic vector realize()d by z3 through CrossHair; the real commands run on an in-memory backend and fresh clients examine what survives. For the local backend the crash point lies inside upload/upload_stream.',
          'crash granularity: backend calls (in-memory) and 8 points inside the local upload; rename atomic; no fsync reasoning; inline executor for worker pools.',
          'solver-exhausted crash/fault vectors (CrossHair realize + z3) over the real command bodies and the real local backend', '3/C03')
    claim('C09',
          'Schedules as solver variables over the real code: restore thread bodies lifted from the source and run as cooperative generators under every schedule prefix; the real slot wrappers under latency/failure vectors; snapshot() recompiled from the source with the producer thread as a generator and pre-emption hooks inside the upload worker (incl. between the operands of its loop condition), compared with the sequential run.',
          'pre-emption at statement boundaries outside lock bodies (+ worker loop condition operands); schedule prefixes of length 10/7; 12 producer patterns x 5 latency patterns; real OS threads not explored.',
          'solver-exhausted schedule vectors (CrossHair realize + z3) over AST-instrumented thread bodies of the real code', '3/C09')
    claim('C12',
          'Fault point x number of consecutive faults x operation x payload size x wrapping are digits of a symbolic vector exhausted by z3 through CrossHair over the real Local methods under the real backoff decorator and over the real S3-compatible and B2 adapters against fake services (HTTP 5xx/429, connection failures, dropped downloads, expired tokens); wrapper forwarding is traced with symbolic arguments (CrossHair+z3). Known finding F10 (B2 never-ending 5xx).',
          'backoff waits stubbed/virtual; OSErrors injected at 7/6 points of a local transfer; S3/B2 services are fakes written from the public API descriptions.',
          'solver-exhausted fault vectors (CrossHair realize + z3) over the real local backend + symbolic execution of stream wrappers', '3/C12')
    claim('C13',
          'Per-name action sequences, the repository path spelling (local) and the listing page size (S3/B2 against fake services) are digits of a symbolic vector exhausted by z3 through CrossHair; each real backend is compared with a dict through exists/download/download_stream and list_files for 14 prefixes. Known finding F11 (local: names ending in .tmp are not listed).',
          '7-9 names, 7 action sequences per name, 9 spellings, 14 prefixes, pages of 1/2/1000; S3/B2 services are fakes written from the public API descriptions; request signing not checked.',
          'solver-exhausted operation/spelling vectors (CrossHair realize + z3) against a reference map', '3/C13')
    claim('C14',
          'Bounded solver-based check: location helpers, name derivation, the lifted chunk producer (symbolic chunk plaintexts, idealised crypto: exact term structure of the stored object and its name), attribution/plan tiling and byte-string tagging are traced by CrossHair+z3; both directions of a differential against an independent reader/writer (hashlib+cryptography only) are exhausted over configuration x tree x segmentation vectors.',
          'reference implementation written from the README scheme; idealised crypto in X1; 6 configurations x 8 trees; symbolic plaintext 1 byte.',
          'symbolic execution of lifted producer/location code (CrossHair+z3) + solver-exhausted differential vectors against an independent format implementation', '3/C14')
    claim('C15',
          'Bounded solver-based check: the sorting+planning statements of restore() lifted from the source and traced by CrossHair+z3 over a symbolic presence matrix, timestamp permutation and filter pool; listings, restore and delete on real histories with filter vectors exhausted by the solver, every printed column compared with ground truth.',
          'regexes from pools; 3 snapshots x 3 paths; bytes_to_human used as the formatter of the oracle.',
          'symbolic execution of the lifted restore plan (CrossHair+z3) + solver-exhausted listing/filter vectors on real commands', '3/C15')
    claim('C17',
          'Bounded solver-based check: adapter constructors with symbolic integers (accepted sets), progress of next_cut for every accepted (min,max) as a z3 query on the LLVM IR, the Python adapter lossless over any contract-obeying cutter; settings dictionaries (hashing x chunking x cipher x kdf x mode pools incl. out-of-range, mistyped, wrong-kind, unknown entries) and add-key chains exhausted by the solver over the real init/add_key/unlock with a fresh-process round trip.',
          'finite pools of settings values; scrypt n <= 8; as C10 for the IR part.',
          'symbolic execution of constructors (CrossHair+z3) + LLVM IR -> SMT progress query + solver-exhausted settings vectors', '3/C17')
    claim('C19',
          'Bounded solver-based check of the real code: the typed-value and precedence logic of the configuration classes traced by CrossHair+z3 with symbolic TOML integers / booleans / floats (unbounded), symbolic presence flags and symbolic text values; and a symbolic choice vector (option x presence mask over command line / environment / selected profile / default section x value variant x profile mode) realize()d by z3 and executed on the real replicat.__main__.main() with the real argparse, tomllib and os.environ against a reference precedence rule; mutually exclusive pairs rejected together and accepted alone.',
          '15 options (6 of a recording custom backend registered as replicat.backends.vtpc) x 16 masks x 3 value variants x 3 profile modes; each vector re-executes replicat.utils.cli (main() runs once per process); alternatives of one setting at different file levels outside; text coercion of arbitrary strings is a pool (CrossHair realises at ast.literal_eval / int(str)).',
          'symbolic execution of config classes (CrossHair+z3) + solver-exhausted choice vectors on the real main()', '3/C19')
    NA.pop('C19', None)
