#!/bin/bash
# tools/mkrevert.sh <commit> <out.diff> : patch (against /repo HEAD) that undoes one fix: commit
wt=$(mktemp -d /tmp/rv_XXXXXX); git -C /repo worktree add -q --detach "$wt" HEAD
( cd "$wt" && git revert -n "$1" >/dev/null 2>&1 && git diff HEAD ) > "$2"; git -C /repo worktree remove --force "$wt"
