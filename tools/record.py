#!/usr/bin/env python3
"""tools/record.py <seed-id> <text>: note in seeded/<id>/meta.json which check/obligation detects the change."""
import json, sys
p = f'/verif/seeded/{sys.argv[1]}/meta.json'
m = json.load(open(p)); m['detected_by'] = sys.argv[2]
if len(sys.argv) > 3: m['ran'] = sys.argv[3]
json.dump(m, open(p, 'w'), indent=1)
