#!/bin/bash
# tools/sweep.sh <listfile> [parallel] : lines "patch PROP expected_exit" ; runs tools/mutcheck.sh for each and tabulates.
list=$1; par=${2:-3}
mkdir -p /verif/.work/sweep
run() { p=$1; prop=$2; exp=$3; out=/verif/.work/sweep/$(echo $p | tr / _)_$prop.log; /verif/tools/mutcheck.sh /verif/$p $prop > $out 2>&1; rc=$?; st=OK; [ "$rc" != "$exp" ] && st=UNEXPECTED; echo "$st rc=$rc expected=$exp $p $prop :: $(grep -m1 -E 'counterexample|INCONCLUSIVE' $out | cut -c1-160)"; }
export -f run
grep -v '^#' $list | grep . | xargs -P $par -L 1 bash -c 'run $0 $1 $2'
