#!/bin/bash
# tools/runall.sh [quick|thorough] : run every registered check sequentially against /repo, summarise
tier=${1:-quick}; cd /verif
for p in $(python3 -c "import json;print(' '.join(c['property_id'] for c in json.load(open('/verif/MANIFEST.json'))['checks']))"); do
  s=$SECONDS; ./check $p $tier > /verif/.work/run_$p.log 2>&1; rc=$?
  echo "$p rc=$rc $((SECONDS-s))s $(grep -c KNOWN-FINDING /verif/.work/run_$p.log) known :: $(tail -1 /verif/.work/run_$p.log)"
done
