#!/bin/bash
# tools/mutcheck.sh <patch.diff> <PROP> [tier]  - run one check against a scratch worktree of /repo with the patch applied.
# The worktree lives under /tmp and is removed afterwards; /repo itself is not touched.
set -u
patch=$(realpath "$1"); prop=$2; tier=${3:-quick}
wt=$(mktemp -d /tmp/mut_XXXXXX)
git -C /repo worktree add -q --detach "$wt" ${BASE:-HEAD} >/dev/null 2>&1 || { echo "worktree failed"; exit 3; }
( cd "$wt" && git apply "$patch" ) || { echo "patch does not apply"; git -C /repo worktree remove --force "$wt"; exit 3; }
cd /verif
VT_REPO="$wt" ./check "$prop" "$tier" > "$wt.log" 2>&1; rc=$?
grep -E "VIOLATION|KNOWN-FINDING|INCONCLUSIVE|counterexample|obligations discharged" "$wt.log" | cut -c1-400 | sed "s|$wt|<wt>|g"
echo "exit=$rc patch=$(basename $patch) prop=$prop"
git -C /repo worktree remove --force "$wt"; rm -f "$wt.log"
exit $rc
