#!/usr/bin/env python3
"""Regenerate MANIFEST.json from the table below (kept in one place so it always validates)."""
import json, subprocess
CHECKS = {}
NA = {}
def claim(pid, text, note, technique, design):
    CHECKS[pid] = dict(text=text, note=note, technique=technique, design=design)

claim('C01', 'Bounded solver-based check of the real code: z3 (through CrossHair) explores every path of the lifted attribution, layout, restore-planning and write statements for symbolic (mostly unbounded) integers and 3 files, and exhausts a symbolic case-selector vector over the real snapshot/restore stack. Holds for every value inside the stated bounds; nothing is claimed outside them.',
      'CrossHair 0.0.110 path exploration + z3 5.1; stubs: tqdm/logger; interval-partition lemma stated not checked; E obligations limited to the listed size/config/spelling pools.',
      'symbolic execution of lifted repository.py closures (CrossHair+z3) + solver-exhausted choice vectors on the real stack', '3/C01')

NA['C05'] = 'information-flow property through json/base64/hashlib/cryptography C code: CrossHair realises at every boundary, nothing stays symbolic (DESIGN.md section 4)'
NA['C16'] = 'SigV4 correctness lives in urllib/httpx percent-encoding tables and SHA-256/HMAC; symbolic strings die in httpx URL parsing (DESIGN.md section 4)'
NA['C19'] = 'finite option lattice through argparse/tomllib/os.environ with no arithmetic; exhaustive enumeration would be testing, not a solver verdict (DESIGN.md section 4)'

import sys, os
sys.path.insert(0, os.path.dirname(os.path.dirname(os.path.abspath(__file__))))
try:
    from tools.manifest_table import extend
    extend(claim, NA)
except ImportError:
    pass

props = [json.loads(l)['id'] for l in open('/verif/properties.jsonl')]
for p in props:
    if p not in CHECKS and p not in NA:
        NA[p] = 'check not landed yet in this round (see DESIGN.md section 6); not claimed until its obligations return definite verdicts on the unchanged tree'
hooks_commits = []
m = {
 'version': 1,
 'setup_cmd': './setup.sh',
 'hooks': {'guard': 'VAULTAH_REPLICAT_VERIF', 'enable': 'no source hooks: checks lift closures by AST and substitute names in copies of module namespaces; the guard is unused', 'baseline_off_cmd': 'cd /repo && /venv/bin/python -m pytest -ra -q -p no:cacheprovider --timeout=900 --continue-on-collection-errors', 'source_commits': hooks_commits, 'add_only': True},
 'engines': [
  {'name': 'crosshair-driver', 'path': 'vt/core.py', 'serves_properties': sorted(CHECKS), 'kind_free_text': 'CrossHair 0.0.110 (symbolic execution of Python with z3) run per obligation, with reachability twins, replay and known-finding exclusion'},
  {'name': 'lift', 'path': 'vt/lift.py', 'serves_properties': ['C01', 'C04', 'C09', 'C14', 'C15'], 'kind_free_text': 'AST lifting of nested closures / statement ranges of the current repository.py'},
  {'name': 'rt', 'path': 'vt/rt.py', 'serves_properties': ['C02', 'C03', 'C06', 'C07', 'C08', 'C09'], 'kind_free_text': 'deterministic event loop, inline executor, in-memory backend with crash/fault/latency control, idealised crypto'},
 ],
 'checks': [
  {'property_id': p, 'quick_cmd': f'./check {p} quick', 'thorough_cmd': f'./check {p} thorough', 'evidence_file': f'/verif/evidence/{p}.json',
   'replay_cmd_template': './check --replay {path}', 'engine': 'crosshair-driver',
   'level_claimed': {'category': 'other', 'text': c['text'], 'design_ref': c['design']}, 'level_note': c['note'], 'technique': c['technique']}
  for p, c in sorted(CHECKS.items())],
 'notes': 'Exit codes: 0 discharged, 1 reproduced violation, 2 inconclusive (never reported as success). Fix commits in /repo are listed in known_findings.json.',
 'not_applicable': [{'property_id': p, 'reason': r} for p, r in sorted(NA.items())],
}
json.dump(m, open('/verif/MANIFEST.json', 'w'), indent=1)
print('claimed', sorted(CHECKS), 'n/a', sorted(NA))
