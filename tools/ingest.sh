#!/bin/bash
# tools/ingest.sh <out_dir> <seed-id> <PROP> : confirm a sub-agent's seeded change in a fresh scratch worktree and keep it
# under /verif/seeded/<seed-id>/ (patch.diff, demo.py, notes.md, meta.json). Nothing is applied to /repo.
set -u
out=$1; sid=$2; prop=$3
wt=$(mktemp -d /tmp/ing_XXXXXX)
git -C /repo worktree add -q --detach "$wt" HEAD >/dev/null 2>&1
cp "$out/demo.py" "$wt/demo_seed.py"
cd "$wt"
PYTHONPATH=$wt timeout 600 /venv/bin/python demo_seed.py > /tmp/ing_clean.log 2>&1; clean_rc=$?
git apply "$out/patch.diff" || { echo "PATCH DOES NOT APPLY"; cd /; git -C /repo worktree remove --force "$wt"; exit 3; }
PYTHONPATH=$wt timeout 900 /venv/bin/python -m pytest -q -p no:cacheprovider -x > /tmp/ing_tests.log 2>&1; tests_rc=$?
PYTHONPATH=$wt timeout 600 /venv/bin/python demo_seed.py > /tmp/ing_mut.log 2>&1; mut_rc=$?
echo "demo on clean tree rc=$clean_rc ; tests with patch rc=$tests_rc ($(tail -1 /tmp/ing_tests.log)) ; demo with patch rc=$mut_rc"
cd /; git -C /repo worktree remove --force "$wt"
if [ $clean_rc -eq 0 ] && [ $tests_rc -eq 0 ] && [ $mut_rc -ne 0 ]; then
  mkdir -p /verif/seeded/$sid
  cp "$out/patch.diff" "$out/demo.py" /verif/seeded/$sid/
  [ -f "$out/notes.md" ] && cp "$out/notes.md" /verif/seeded/$sid/
  /venv/bin/python - "$sid" "$prop" "$clean_rc" "$tests_rc" "$mut_rc" <<'P'
import json, sys, subprocess, os
sid, prop, c, t, m = sys.argv[1:]
d = f'/verif/seeded/{sid}'
notes = open(d + '/notes.md').read() if os.path.exists(d + '/notes.md') else ''
meta = {'seed_id': sid, 'breaks_property': prop, 'origin': 'independent sub-agent given only the property text and a scratch worktree',
        'base_commit': subprocess.run(['git', '-C', '/repo', 'rev-parse', '--short', 'HEAD'], capture_output=True, text=True).stdout.strip(),
        'needs_to_manifest': notes[:1500],
        'confirmed': {'demo_on_unmodified_tree_rc': int(c), 'test_suite_with_patch_rc': int(t), 'demo_with_patch_rc': int(m),
                      'how': 'tools/ingest.sh: fresh worktree of /repo HEAD under /tmp; demo.py; git apply patch.diff; full pytest; demo.py again'},
        'detected_by': None}
json.dump(meta, open(d + '/meta.json', 'w'), indent=1)
P
  echo "KEPT as /verif/seeded/$sid"
else
  echo "REJECTED"; tail -5 /tmp/ing_clean.log /tmp/ing_mut.log
fi
